-------------------------------- MODULE Keys --------------------------------
(***************************************************************************)
(* Cache-key construction of #[cache] / #[cache_async] (C02).              *)
(*                                                                         *)
(* key(receiver?, a1 .. an) = Join("|", Render(receiver?), Render(a1) ..)  *)
(* where Render is Rust's `Debug` rendering (sync: the blanket             *)
(* `CacheableKey` impl for the built-in key types is `format!("{:?}")`;    *)
(* async: `format!("{:?}")` directly).  Values are tagged records; strings *)
(* and chars are sequences of one-character tokens so that the escaping    *)
(* rules can be written per character.                                     *)
(*                                                                         *)
(*   [t |-> "int",  v |-> -3]                  -3                          *)
(*   [t |-> "bool", v |-> TRUE]                true                        *)
(*   [t |-> "char", c |-> "a"]                 'a'   (escapes: ' \ \n ..)  *)
(*   [t |-> "str",  cs |-> <<"a","|">>]        "a|"  (escapes: " \ \n ..)  *)
(*   [t |-> "opt",  some |-> b, v |-> x]       None / Some(x)              *)
(*   [t |-> "vec",  xs |-> <<..>>]             [x, y]                      *)
(*   [t |-> "tup",  xs |-> <<..>>]             (x, y)   (x,)               *)
(*   [t |-> "struct",  name, fields |-> <<[n, v]..>>]   Pt { x: 1, y: 2 }  *)
(*   [t |-> "tstruct", name, xs |-> <<..>>]             W("a")             *)
(***************************************************************************)
EXTENDS Naturals, Integers, Sequences, FiniteSets, TLC, SequencesExt

Cat(seq) == FoldLeft(LAMBDA acc, x : acc \o x, "", seq)

RECURSIVE JoinWith(_, _)
JoinWith(seq, sep) ==
  IF seq = <<>> THEN ""
  ELSE IF Len(seq) = 1 THEN seq[1]
  ELSE seq[1] \o sep \o JoinWith(Tail(seq), sep)

\* escapes shared by str and char Debug
EscCommon(c) ==
  CASE c = "\\" -> "\\\\"
    [] c = "\n" -> "\\n"
    [] c = "\t" -> "\\t"
    [] c = "\r" -> "\\r"
    [] OTHER -> c

EscStr(c)  == IF c = "\"" THEN "\\\"" ELSE EscCommon(c)
EscChar(c) == IF c = "'" THEN "\\'" ELSE EscCommon(c)

IntStr(i) == ToString(i)

RECURSIVE Render(_)
Render(x) ==
  CASE x.t = "int"  -> IntStr(x.v)
    [] x.t = "bool" -> IF x.v THEN "true" ELSE "false"
    [] x.t = "char" -> "'" \o EscChar(x.c) \o "'"
    [] x.t = "str"  -> "\"" \o Cat([i \in DOMAIN x.cs |-> EscStr(x.cs[i])]) \o "\""
    [] x.t = "opt"  -> IF x.some THEN "Some(" \o Render(x.v) \o ")" ELSE "None"
    [] x.t = "vec"  -> "[" \o JoinWith([i \in DOMAIN x.xs |-> Render(x.xs[i])], ", ") \o "]"
    [] x.t = "tup"  -> IF Len(x.xs) = 1 THEN "(" \o Render(x.xs[1]) \o ",)"
                       ELSE "(" \o JoinWith([i \in DOMAIN x.xs |-> Render(x.xs[i])], ", ") \o ")"
    [] x.t = "struct" ->
         IF x.fields = <<>> THEN x.name
         ELSE x.name \o " { "
              \o JoinWith([i \in DOMAIN x.fields |-> x.fields[i].n \o ": " \o Render(x.fields[i].v)], ", ")
              \o " }"
    [] x.t = "tstruct" -> x.name \o "(" \o JoinWith([i \in DOMAIN x.xs |-> Render(x.xs[i])], ", ") \o ")"

\* parts = <<receiver (if any), arg1, ..., argn>>
Key(parts) == JoinWith([i \in DOMAIN parts |-> Render(parts[i])], "|")

\* as-found alternatives, to show that the injectivity check is not vacuous
KeyNoSep(parts) == Cat([i \in DOMAIN parts |-> Render(parts[i])])
RenderDisplay(x) == IF x.t = "str" THEN Cat(x.cs) ELSE Render(x)
KeyDisplay(parts) == JoinWith([i \in DOMAIN parts |-> RenderDisplay(parts[i])], "|")

Injective(K(_), D) == Cardinality({K(t) : t \in D}) = Cardinality(D)
=============================================================================
