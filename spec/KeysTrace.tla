------------------------------ MODULE KeysTrace ------------------------------
(***************************************************************************)
(* C02, code -> spec.  Each line: one argument tuple given to a decorated  *)
(* function, and the REAL cache key it produced (read back through the     *)
(* inspector), plus whether an immediate second call with the same tuple   *)
(* was served from the cache.  Checked by TLC:                             *)
(*   DRIFT  the real key differs from Keys!Key(parts) (format conformance: *)
(*          this transfers the injectivity TLC proved on the bounded       *)
(*          domains of KeysMC to the real key generators);                 *)
(*   FAIL   two different tuples of the same function share a key, one     *)
(*          tuple produced two different keys, or the repeated call was    *)
(*          not served from the cache.                                     *)
(***************************************************************************)
EXTENDS Keys, Json, IOUtils

Rec == ndJsonDeserialize(IOEnv.TRACE)

VARIABLE l
Check(ok, kind, id, line) == IF ok THEN TRUE ELSE PrintT(<<kind, id, line>>)

Init == l = 0

Next ==
  /\ l < Len(Rec)
  /\ LET r == Rec[l + 1] IN
     /\ r.model => Check(r.key = Key(r.parts), "DRIFT", "key-format", l + 1)
     /\ Check(r.executed /\ r.again_hit, "FAIL", "C02", l + 1)
  /\ l' = l + 1

KSpec == Init /\ [][Next]_l

\* whole-file injectivity, evaluated once at the end
Pairs == {<<Rec[i].fn, Rec[i].key>> : i \in DOMAIN Rec}
Tuples == {<<Rec[i].fn, Rec[i].parts>> : i \in DOMAIN Rec}
Triples == {<<Rec[i].fn, Rec[i].parts, Rec[i].key>> : i \in DOMAIN Rec}

Done == IF l < Len(Rec) THEN TRUE
        ELSE /\ Check(Cardinality(Pairs) = Cardinality(Tuples) /\ Cardinality(Triples) = Cardinality(Tuples),
                      "FAIL", "C02", 0)
             /\ PrintT(<<"INFO", "distinct-tuples", Cardinality(Tuples)>>)
             /\ PrintT(<<"DONE", "keys", l>>)
=============================================================================
