SPECIFICATION EdgeSpec
CONSTANTS
  Quirks = {}
INVARIANT Done
CHECK_DEADLOCK FALSE
