------------------------------- MODULE MemEst -------------------------------
(***************************************************************************)
(* C05, what "the size of a cached value" means: its inline size plus the  *)
(* heap capacity it owns, recursively.  A value is described by a tree     *)
(*   [t |-> "prim",   inline]                                              *)
(*   [t |-> "string", inline, cap]                                         *)
(*   [t |-> "vec",    inline, elem (inline size of one element), cap,      *)
(*                    items (descriptors of the len initialised elements)] *)
(*   [t |-> "option", inline, some, v]     [t |-> "result", inline, v]     *)
(*   [t |-> "tuple",  inline, fields]      [t |-> "box", inline, v]        *)
(* The harness logs such a tree (inline sizes from size_of, capacities as  *)
(* constructed) next to the library's estimate_memory(); TLC checks        *)
(* est = Footprint(desc) on every line.                                    *)
(***************************************************************************)
EXTENDS Naturals, Sequences, TLC, Json, IOUtils, SequencesExt

RECURSIVE Heap(_)
SumHeap(seq) == FoldLeft(LAMBDA acc, x : acc + Heap(x), 0, seq)
Heap(v) ==
  CASE v.t = "prim"   -> 0
    [] v.t = "string" -> v.cap
    [] v.t = "vec"    -> v.cap * v.elem + SumHeap(v.items)
    [] v.t = "option" -> IF v.some THEN Heap(v.v) ELSE 0
    [] v.t = "result" -> Heap(v.v)
    [] v.t = "tuple"  -> SumHeap(v.fields)
    [] v.t = "box"    -> v.v.inline + Heap(v.v)

Footprint(v) == v.inline + Heap(v)

Rec == ndJsonDeserialize(IOEnv.TRACE)
VARIABLE l
Init == l = 0
Next == /\ l < Len(Rec)
        /\ LET r == Rec[l + 1] IN
           IF r.est = Footprint(r.desc) THEN TRUE ELSE PrintT(<<"FAIL", "C05", l + 1>>)
        /\ l' = l + 1
MSpec == Init /\ [][Next]_l
Done == IF l < Len(Rec) THEN TRUE ELSE PrintT(<<"DONE", "memest", l>>)
=============================================================================
