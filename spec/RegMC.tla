-------------------------------- MODULE RegMC --------------------------------
(* Bounded instances of Reg.tla: every assignment of short programs to NThreads threads over the
   operation alphabet; a cold cache is first-called by at most one thread (std `Once` serialises first
   calls outside the locks modelled here) and only warm caches get later calls. *)
EXTENDS Reg

Warm == Caches \ Cold
Alphabet ==
       {[op |-> "first", c |-> c] : c \in Cold}
  \cup {[op |-> "call", c |-> c] : c \in Warm}
  \cup {[op |-> o] : o \in {"tag", "event", "dep", "allwith"}}
  \cup {[op |-> o, c |-> c] : o \in {"name", "with", "stats"}, c \in Caches}

Progs == UNION {[1..n -> Alphabet] : n \in 1..MaxOps}

FirstsOf(p) == {i \in DOMAIN p : p[i].op = "first"}
Admissible(pr) ==
  \A c \in Cold :
    Cardinality({<<t, i>> \in Threads \X (1..MaxOps) : i \in DOMAIN pr[t] /\ pr[t][i].op = "first" /\ pr[t][i].c = c}) <= 1

Init ==
  /\ prog \in {pr \in [Threads -> Progs] : Admissible(pr)}
  /\ todo = [t \in Threads |-> <<>>]
  /\ rd = [l \in Locks |-> <<>>]
  /\ wr = [l \in Locks |-> 0]
  /\ pend = [l \in Locks |-> {}]
  /\ regd = [role \in RegLocks |-> IF role \in {"reg.chk", "reg.stats"} THEN Warm ELSE Warm \cap MetaCaches]
  /\ started = Warm

Next == \E t \in Threads : Step(t)
Spec == Init /\ [][Next]_rvars
=============================================================================
