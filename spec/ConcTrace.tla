------------------------------ MODULE ConcTrace ------------------------------
(***************************************************************************)
(* Conformance of the REAL lock protocol to Conc.tla.  Every line is one   *)
(* complete schedule of a short program that the harness ran on the real   *)
(* code under its cooperative scheduler: the program, the cache state and  *)
(* version counter at the start, the sequence of lock grants              *)
(* [thread, lock, mode], each operation's result, and the state once all   *)
(* threads had returned.  The specification is replayed grant by grant:    *)
(*   DRIFT lock-protocol : the thread that was granted a lock is not       *)
(*                         waiting for exactly that lock/mode in the spec  *)
(*   DRIFT final-state / results : after the last grant the specification  *)
(*                         is not finished, or its cache state / results   *)
(*                         differ from the observed ones                   *)
(* so the deadlock-freedom and consistency TLC proves on Conc.tla speak    *)
(* about the locking the code really does.                                 *)
(***************************************************************************)
EXTENDS Conc, Json, IOUtils

Rec == ndJsonDeserialize(IOEnv.TRACE)

VARIABLES l, gi, ok
ctvars == <<l, gi, ok, cfg, c, c0, ver, prog, pc, mapL, orderL, res>>

Check(b, kind, id, line) == IF b THEN TRUE ELSE PrintT(<<kind, id, line>>)

SeqSet(s) == {s[i] : i \in DOMAIN s}
TheName(r) == CHOOSE n \in DOMAIN r.cfgs : TRUE
HasMeta(m) == m.tags # <<>> \/ m.events # <<>> \/ m.deps # <<>>
InSeq(x, s) == \E i \in DOMAIN s : s[i] = x

Stores(o, m) ==
  IF m.hasCif THEN o.cif /\ ((m.kind # "async" /\ m.isResult) => o.ok) ELSE (m.isResult => o.ok)

\* harness operation -> Conc operation (for the single cache of the run)
\* estimate of the String-valued fixtures: 24 bytes inline + length (Result<String, _>: 32 + length)
ValSize(o, m, cf) == IF cf.maxmem = 0 THEN 1 ELSE IF m.isResult THEN o.size + 8 ELSE o.size

TrOp(o, m, cf) ==
  CASE o.op = "call" -> [op |-> IF Stores(o, m) THEN "call" ELSE "callx", k |-> ToString(o.k), size |-> ValSize(o, m, cf)]
    [] o.op = "inv_with" ->
         IF o.x = m.cacheName THEN [op |-> "inv_with", sel |-> SeqSet(o.sel), naux |-> 1]
         ELSE [op |-> "aux", naux |-> 1]
    [] o.op = "inv_all_with" ->
         [op |-> "inv_with", sel |-> IF m.cacheName \in DOMAIN o.sel THEN SeqSet(o.sel[m.cacheName]) ELSE {}, naux |-> 1]
    [] o.op = "inv_name" ->
         IF o.x = m.cacheName /\ HasMeta(m) THEN [op |-> "clear", naux |-> 1] ELSE [op |-> "aux", naux |-> 1]
    [] o.op = "inv_tag" ->
         IF InSeq(o.x, m.tags) THEN [op |-> "clear", naux |-> 2] ELSE [op |-> "aux", naux |-> 2]
    [] o.op = "inv_event" ->
         IF InSeq(o.x, m.events) THEN [op |-> "clear", naux |-> 2] ELSE [op |-> "aux", naux |-> 2]
    [] o.op = "inv_dep" ->
         IF InSeq(o.x, m.deps) THEN [op |-> "clear", naux |-> 2] ELSE [op |-> "aux", naux |-> 2]
    [] o.op = "stats_reset" -> [op |-> IF o.x = m.cacheName THEN "sreset" ELSE "aux", naux |-> 1]
    [] o.op = "stats_get" -> [op |-> "aux", naux |-> 1]

LockName(s) == IF s = "start" THEN "start"
               ELSE IF Len(s) >= 4 /\ SubSeq(s, 1, 4) = "map:" THEN "map"
               ELSE IF Len(s) >= 6 /\ SubSeq(s, 1, 6) = "order:" THEN "order" ELSE "aux"

Load(r) ==
  LET n == TheName(r) IN
  /\ cfg' = r.cfgs[n]
  /\ c' = r.sts0[n]
  /\ c0' = r.sts0[n]
  /\ ver' = r.ver0
  /\ prog' = [t \in DOMAIN r.program |-> [i \in DOMAIN r.program[t] |-> TrOp(r.program[t][i], r.metas[n], r.cfgs[n])]]
  /\ pc' = [t \in DOMAIN r.program |-> PC0]
  /\ mapL' = 0 /\ orderL' = 0
  /\ res' = [t \in DOMAIN r.program |-> <<>>]

Init == /\ l = 0 /\ gi = 0 /\ ok = TRUE
        /\ cfg = <<>> /\ c = EmptyCache /\ c0 = EmptyCache /\ ver = 0 /\ prog = <<>> /\ pc = <<>>
        /\ mapL = 0 /\ orderL = 0 /\ res = <<>>

\* results of thread t as observed
Observed(r, t) ==
  LET mine == SelectSeq(r.ops, LAMBDA o : o.t = t) IN
  [i \in DOMAIN mine |-> [exec |-> mine[i].exec, ret |-> mine[i].ret]]

Next ==
  \/ \* load the next record
     /\ l < Len(Rec)
     /\ (IF l = 0 THEN TRUE ELSE gi = Len(Rec[l].grants) + 1)
     /\ Load(Rec[l + 1])
     /\ l' = l + 1 /\ gi' = 1 /\ ok' = TRUE
  \/ \* replay one grant
     /\ l >= 1
     /\ (IF l = 0 THEN FALSE ELSE gi <= Len(Rec[l].grants))
     /\ LET g == Rec[l].grants[gi]
            t == g[1]
        IN IF ok /\ ~pc[t].done /\ pc[t].want.lock = LockName(g[2]) /\ pc[t].want.mode = g[3] /\ Grantable(t, pc[t].want)
           THEN Step(t) /\ ok' = TRUE
           ELSE /\ (ok => PrintT(<<"DRIFT", "lock-protocol", l>>))
                /\ ok' = FALSE
                /\ UNCHANGED cvars
     /\ gi' = gi + 1 /\ l' = l

CSpec == Init /\ [][Next]_ctvars

\* evaluated in every state: at the end of a record's grants the specification must be finished
\* with the observed state and results
EndOK ==
  (IF l = 0 THEN FALSE ELSE gi = Len(Rec[l].grants) + 1 /\ ok) =>
     LET r == Rec[l]
         n == TheName(r) IN
     /\ Check(AllDone, "DRIFT", "not-finished", l)
     /\ Check(c = r.sts[n], "DRIFT", "final-state", l)
     /\ Check(\A t \in DOMAIN prog : res[t] = Observed(r, t), "DRIFT", "results", l)

Done == IF l < Len(Rec) THEN TRUE
        ELSE IF gi <= Len(Rec[l].grants) THEN TRUE ELSE PrintT(<<"DONE", "conc", l>>)
=============================================================================
