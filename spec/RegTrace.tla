------------------------------- MODULE RegTrace -------------------------------
(***************************************************************************)
(* Conformance of recorded schedules with the registry lock protocol of     *)
(* Reg.tla.  Input: the `quiesce` records of scheduled runs (cold-start     *)
(* jobs and multi-function jobs): the program of every thread and the       *)
(* grants [thread, lock, mode, registry locks already held] in the order    *)
(* the scheduler made them.                                                 *)
(*                                                                         *)
(* For every thread the sequence of REGISTRY lock acquisitions of the real  *)
(* run must be exactly the one Reg.tla prescribes for its program -- the    *)
(* same locks, modes and order, each taken while holding no other registry  *)
(* lock.  (Registry acquisitions of an operation do not depend on the       *)
(* interleaving; which cache locks follow does, and is covered by           *)
(* ConcTrace.tla.)  If this holds for the recorded runs, the proof of        *)
(* NoDeadlock on RegMC.tla speaks about the protocol the code follows.      *)
(***************************************************************************)
EXTENDS Naturals, Sequences, FiniteSets, TLC, Json, IOUtils

Rec == ndJsonDeserialize(IOEnv.TRACE)
VARIABLE l

RegNames == {"reg.tag", "reg.event", "reg.dep", "reg.meta", "reg.clr", "reg.chk", "reg.stats"}

A(n, m) == <<n, m>>

HasMeta(m) == m.tags # <<>> \/ m.events # <<>> \/ m.deps # <<>>

\* registry acquisitions of the first call of a function (Reg!Registration)
FirstProj(m) ==
     <<A("reg.stats", "w")>>
  \o (IF HasMeta(m) THEN <<A("reg.tag", "w"), A("reg.event", "w"), A("reg.dep", "w"), A("reg.meta", "w"), A("reg.clr", "w")>> ELSE <<>>)
  \o <<A("reg.chk", "w")>>

\* registry acquisitions of one operation; `cold` = functions not yet first-called when it starts
OpProj(op, metas, cold) ==
  CASE op.op = "call" -> IF op.f \in cold THEN FirstProj(metas[op.f]) ELSE <<>>
    [] op.op = "inv_tag" -> <<A("reg.tag", "r"), A("reg.clr", "r")>>
    [] op.op = "inv_event" -> <<A("reg.event", "r"), A("reg.clr", "r")>>
    [] op.op = "inv_dep" -> <<A("reg.dep", "r"), A("reg.clr", "r")>>
    [] op.op = "inv_name" -> <<A("reg.clr", "r")>>
    [] op.op \in {"inv_with", "inv_all_with"} -> <<A("reg.chk", "r")>>
    [] op.op \in {"stats_get", "stats_reset"} -> <<A("reg.stats", "r")>>
    [] OTHER -> <<>>

RECURSIVE ProgProj(_, _, _)
ProgProj(ops, metas, cold) ==
  IF ops = <<>> THEN <<>>
  ELSE LET op == Head(ops) IN
       OpProj(op, metas, cold) \o ProgProj(Tail(ops), metas, IF op.op = "call" THEN cold \ {op.f} ELSE cold)

\* observed: registry grants of thread t, with the registry locks held at that moment
IsReg(g) == g[2] \in RegNames
RECURSIVE Obs(_, _)
Obs(gs, t) ==
  IF gs = <<>> THEN <<>>
  ELSE LET g == Head(gs) IN
       IF g[1] = t /\ IsReg(g) THEN <<g>> \o Obs(Tail(gs), t) ELSE Obs(Tail(gs), t)

Conforms(r) ==
  LET cold == {r.nowarm[i] : i \in DOMAIN r.nowarm} IN
  \A t \in DOMAIN r.program :
    LET o == Obs(r.grants, t)
        e == ProgProj(r.program[t], r.metas, cold)
    IN /\ Len(o) = Len(e)
       /\ \A i \in DOMAIN o : o[i][2] = e[i][1] /\ o[i][3] = e[i][2] /\ o[i][4] = <<>>

Init == l = 0
Next == /\ l < Len(Rec)
        /\ LET r == Rec[l + 1] IN
           IF r.ev # "quiesce" \/ Conforms(r) THEN TRUE ELSE PrintT(<<"DRIFT", "registry-protocol", l + 1>>)
        /\ l' = l + 1
RSpec == Init /\ [][Next]_l
Done == IF l < Len(Rec) THEN TRUE ELSE PrintT(<<"DONE", "regtrace", l>>)
=============================================================================
