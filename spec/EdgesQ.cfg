SPECIFICATION EdgeSpec
CONSTANTS
  Quirks = {"async_keep_old", "async_recency_needs_limit", "async_rank_reversed", "tl_reborrow_panic"}
INVARIANT Done
CHECK_DEADLOCK FALSE
