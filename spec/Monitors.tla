------------------------------ MODULE Monitors ------------------------------
(***************************************************************************)
(* Step monitors: the listed properties written as predicates over ONE     *)
(* observed step  (cfg, pre, e, post, g)  of one cache:                    *)
(*   pre / post : projected cache state before / after the event           *)
(*   e          : the event record (operation, arguments, result)          *)
(*   g          : ghost bookkeeping maintained from the EVENTS only        *)
(*                (never from the implementation's queue or counters):     *)
(*        g.fifo : keys in the order of their last store                   *)
(*        g.lru  : keys in the order of their last use                     *)
(*        g.gh   : successful lookups since the key's last store           *)
(*        g.val  : value of the key's last store                           *)
(*        g.age  : seconds of (virtual) time since the key's last store    *)
(* The same operators are used (a) as an action property that TLC proves   *)
(* on every transition of the bounded specification graph and (b) by the   *)
(* trace specification on every step recorded from the implementation.     *)
(* A monitor never demands more than the property text: ties are free,     *)
(* the random policy is free, removal of an already expired entry is       *)
(* never counted as an eviction.                                           *)
(***************************************************************************)
EXTENDS Engine

G0 == [fifo |-> <<>>, lru |-> <<>>, gh |-> <<>>, val |-> <<>>, age |-> <<>>]

KeepSeq(s, S) == SelectSeq(s, LAMBDA x : x \in S)

GRestrict(g, S) ==
  [fifo |-> KeepSeq(g.fifo, S), lru |-> KeepSeq(g.lru, S),
   gh |-> Restrict(g.gh, DOMAIN g.gh \cap S), val |-> Restrict(g.val, DOMAIN g.val \cap S),
   age |-> Restrict(g.age, DOMAIN g.age \cap S)]

IsHit(e) == e.op = "get" /\ e.ret # None

\* ghost update for one event on this cache; post is the observed state after it
GNext(g, e, post) ==
  LET g1 == CASE e.op = "ins" ->
                   [fifo |-> Append(DelAll(g.fifo, e.k), e.k),
                    lru  |-> Append(DelAll(g.lru, e.k), e.k),
                    gh   |-> (e.k :> 0) @@ g.gh,
                    val  |-> (e.k :> e.v) @@ g.val,
                    age  |-> (e.k :> 0) @@ g.age]
              [] IsHit(e) /\ e.k \in DOMAIN g.gh ->
                   [g EXCEPT !.lru = Append(DelAll(g.lru, e.k), e.k),
                             !.gh[e.k] = @ + 1]
              [] e.op = "tick" -> [g EXCEPT !.age = [k \in DOMAIN @ |-> @[k] + e.d]]
              [] OTHER -> g
  IN GRestrict(g1, Dom(post))

\* the observed state with the entries' ages replaced by the ghost ages (time since the last STORE
\* event): the age-dependent clauses of the monitors must not depend on the implementation's own
\* birth stamps
WithGhostAges(c, g) ==
  [c EXCEPT !.store = [k \in DOMAIN c.store |->
                         IF k \in DOMAIN g.age THEN [c.store[k] EXCEPT !.age = g.age[k]] ELSE c.store[k]]]

-----------------------------------------------------------------------------
(* what a store step removed *)

\* keys other than the stored one that disappeared
RemovedOthers(pre, e, post) == (Dom(pre) \ {e.k}) \ Dom(post)
\* ... of which already expired (free)
RemovedExpired(cfg, pre, e, post) == RemovedOthers(pre, e, post) \cap ExpiredKeys(cfg, pre)
\* ... and the unexpired ones: these are evictions
Evicted(cfg, pre, e, post) == RemovedOthers(pre, e, post) \ ExpiredKeys(cfg, pre)

Oversize(cfg, e) == e.op = "ins" /\ e.mem /\ cfg.maxmem # 0 /\ e.size > cfg.maxmem

\* the newcomer competes in sync/thread caches (it is stored before the eviction step)
NewcomerCompetes(cfg) == ~IsAsync(cfg)

\* the stored key did not survive its own store (evicted as a never-hit newcomer, or oversize)
NewcomerGone(e, post) == e.k \notin Dom(post)

SizeOf(c, S) == MapThenSumSet(LAMBDA k : c.store[k].size, S)

-----------------------------------------------------------------------------
(* C01 (engine level): a lookup yields the value of the key's latest store; *)
(* a store changes no other key's value                                     *)

P_C01(cfg, pre, e, post, g) ==
  /\ IsHit(e) => /\ e.k \in DOMAIN g.val
                 /\ e.ret = g.val[e.k]
  /\ e.op = "ins" /\ ~e.panic =>
        /\ e.k \in Dom(post) => post.store[e.k].val = e.v
        /\ \A x \in Dom(post) \ {e.k} : x \in Dom(pre) /\ post.store[x].val = pre.store[x].val
  /\ e.op = "get" =>
        \A x \in Dom(post) : x \in Dom(pre) /\ post.store[x].val = pre.store[x].val

-----------------------------------------------------------------------------
(* C04: entry limit and exactly one victim per overflow                     *)

P_C04(cfg, pre, e, post, g) ==
  /\ cfg.limit # 0 /\ ~e.panic => Cardinality(Dom(post)) <= cfg.limit
  /\ e.op = "get" => /\ Dom(post) \subseteq Dom(pre)
                     /\ Dom(pre) \ Dom(post) \subseteq ExpiredKeys(cfg, pre)
  /\ e.op \in {"tick", "noins"} => Dom(post) = Dom(pre)
  /\ e.op = "ins" /\ ~e.panic /\ cfg.limit # 0 /\ ~(e.mem /\ cfg.maxmem # 0) =>
        LET X == RemovedExpired(cfg, pre, e, post)
            E == Evicted(cfg, pre, e, post)
            gone == IF NewcomerGone(e, post) THEN 1 ELSE 0
            overflow == e.k \notin Dom(pre) /\ Cardinality(Dom(pre) \ X) >= cfg.limit
        IN /\ Cardinality(E) + gone = (IF overflow THEN 1 ELSE 0)
           /\ gone = 1 => NewcomerCompetes(cfg) /\ cfg.policy \in {"lfu", "arc", "tlru", "random"}
  /\ e.op = "ins" /\ ~e.panic /\ cfg.limit = 0 /\ ~(e.mem /\ cfg.maxmem # 0) =>
        /\ Evicted(cfg, pre, e, post) = {}
        /\ e.k \in Dom(post)

-----------------------------------------------------------------------------
(* C05: memory limit                                                        *)

\* E can be split into memory victims Em (the last of which was still needed) and at most one
\* entry-limit victim
MemJustified(cfg, pre, e, post, E, goneSize, X) ==
  \E Ec \in SUBSET E :
     LET Em == E \ Ec
         basePost == TotalSize(post)
     IN /\ Cardinality(Ec) <= 1
        /\ Ec # {} => /\ cfg.limit # 0
                      /\ Cardinality((Dom(pre) \cup {e.k}) \ (X \cup Em)) > cfg.limit
        /\ Em # {} => \E v \in Em :
                        \* expired entries removed in the same step may have gone after v
                        basePost + SizeOf(pre, Ec) + SizeOf(pre, X) + pre.store[v].size > cfg.maxmem

P_C05(cfg, pre, e, post, g) ==
  /\ cfg.maxmem # 0 /\ e.op = "ins" /\ e.mem /\ ~e.panic =>
       LET X == RemovedExpired(cfg, pre, e, post)
           E == Evicted(cfg, pre, e, post)
       IN /\ TotalSize(post) <= cfg.maxmem
          \* the oversized value itself is not cached (an older value of the key may or may not survive)
          \* ... and displaces nothing else (dropping entries that had already expired is not a displacement:
          \* when expired entries are purged is left open)
          /\ Oversize(cfg, e) => /\ e.k \in Dom(post) => post.store[e.k].val # e.v
                                 /\ E = {}
          /\ ~Oversize(cfg, e) =>
               IF NewcomerGone(e, post)
               THEN \* only a competing never-hit newcomer may fall to its own store, and only under
                    \* pressure: with it the total did not fit, or the entry limit was exceeded
                    /\ NewcomerCompetes(cfg)
                    /\ cfg.policy \in {"lfu", "arc", "tlru", "random"}
                    /\ \/ TotalSize(post) + e.size > cfg.maxmem
                       \/ cfg.limit # 0 /\ Cardinality(Dom(post)) + 1 > cfg.limit
               ELSE MemJustified(cfg, pre, e, post, E, 0, X)
  /\ cfg.maxmem # 0 /\ ~e.panic /\ e.op \in {"get", "tick", "noins"} =>
       TotalSize(post) <= TotalSize(pre)

\* a store that does not overflow (entry limit not reached, total size fits) loses no unexpired entry:
\* an earlier stored result stays served (used by the C09 / C10 / C11 monitors for the results THEY say
\* are stored; pre carries ghost ages)
NoNeedlessLoss(cfg, pre, e, post) ==
  ( /\ cfg.limit = 0 \/ Cardinality(Dom(pre) \cup {e.k}) <= cfg.limit
    /\ cfg.maxmem = 0 \/ ~e.mem \/ SizeOf(pre, Dom(pre) \ {e.k}) + e.size <= cfg.maxmem )
  => (Dom(pre) \ ExpiredKeys(cfg, pre)) \ {e.k} \subseteq Dom(post)

-----------------------------------------------------------------------------
(* C06: TTL                                                                 *)

P_C06(cfg, pre, e, post, g) ==
  /\ cfg.ttl # 0 /\ e.op = "get" /\ e.k \in Dom(pre) =>
     LET a == pre.store[e.k].age IN
     /\ a >= cfg.ttl => /\ e.ret = None /\ e.k \notin Dom(post)
                        \* the purge concerns the expired entry only: no other stored key loses its
                        \* place in the eviction queue
                        /\ \A x \in Dom(post) : x \in SeqRange(pre.order) => x \in SeqRange(post.order)
     /\ a < (IF IsAsync(cfg) THEN cfg.ttl - 1 ELSE cfg.ttl) => e.ret = pre.store[e.k].val
  \* "... so that it no longer occupies capacity": with a ttl configured, a store that the entries actually
  \* present do not make overflow loses no unexpired entry (a purged entry has left nothing behind that
  \* still counts against the limit)
  /\ (cfg.ttl # 0 /\ e.op = "ins" /\ ~e.panic) => NoNeedlessLoss(cfg, pre, e, post)

-----------------------------------------------------------------------------
(* C07: FIFO / LRU victims: the evicted set is a prefix of the ghost order   *)

P_C07(cfg, pre, e, post, g) ==
  e.op = "ins" /\ ~e.panic /\ cfg.policy \in {"fifo", "lru"} =>
     LET X == RemovedExpired(cfg, pre, e, post)
         E == Evicted(cfg, pre, e, post)
         gs == IF cfg.policy = "fifo" THEN g.fifo ELSE g.lru
         cand == KeepSeq(gs, Dom(pre) \ ({e.k} \cup X))
         n == Cardinality(E)
     IN /\ n <= Len(cand)
        /\ E = {cand[i] : i \in 1..n}
        \* the newcomer is never the FIFO/LRU victim of its own store (unless oversize)
        /\ NewcomerGone(e, post) => Oversize(cfg, e)

-----------------------------------------------------------------------------
(* C08: LFU / ARC / TLRU victims have minimal documented score               *)
(*   hits = successful lookups since the store (ghost), rank = recency rank  *)
(*   among the candidates (1 = least recently used), remaining = ttl - age   *)

\* candidates as a sequence from least to most recently used
GhostScore(cfg, pre, g, cseq, i, newk) ==
  LET x == cseq[i]
      h == IF x = newk THEN 0 ELSE g.gh[x]
      rem == IF x = newk THEN (IF cfg.ttl = 0 THEN 1 ELSE cfg.ttl) ELSE Remaining(cfg, pre.store[x])
  IN CASE cfg.policy = "lfu"  -> h
       [] cfg.policy = "arc"  -> h * i
       [] cfg.policy = "tlru" -> ScoreKey(cfg.w, h, i, rem)

GhostArgMin(cfg, pre, g, cseq, newk) ==
  {cseq[i] : i \in {i \in DOMAIN cseq :
                      \A j \in DOMAIN cseq : GhostScore(cfg, pre, g, cseq, i, newk)
                                             <= GhostScore(cfg, pre, g, cseq, j, newk)}}

\* some order of the victims in which each is a minimiser at its turn
RECURSIVE LegalVictims(_, _, _, _, _, _)
LegalVictims(cfg, pre, g, cseq, V, newk) ==
  \/ V = {}
  \/ \E v \in V \cap GhostArgMin(cfg, pre, g, cseq, newk) :
        LegalVictims(cfg, pre, g, SelectSeq(cseq, LAMBDA x : x # v), V \ {v}, newk)

P_C08(cfg, pre, e, post, g) ==
  e.op = "ins" /\ ~e.panic /\ cfg.policy \in {"lfu", "arc", "tlru"} /\ ~Oversize(cfg, e) =>
     LET X == RemovedExpired(cfg, pre, e, post)
         E == Evicted(cfg, pre, e, post)
         old == KeepSeq(g.lru, Dom(pre) \ ({e.k} \cup X))
         cseq == IF NewcomerCompetes(cfg) THEN Append(old, e.k) ELSE old
         V == IF NewcomerGone(e, post) THEN E \cup {e.k} ELSE E
     IN /\ NewcomerGone(e, post) => NewcomerCompetes(cfg)
        /\ V \subseteq SeqRange(cseq)
        /\ LegalVictims(cfg, pre, g, cseq, V, IF NewcomerCompetes(cfg) THEN e.k ELSE "")

-----------------------------------------------------------------------------
(* C16: no panic *)

P_C16(cfg, pre, e, post, g) == ~e.panic

-----------------------------------------------------------------------------
EngineMonitorIds == {"C01", "C04", "C05", "C06", "C07", "C08", "C16"}

Monitor(id, cfg, pre0, e, post, g) ==
  LET pre == WithGhostAges(pre0, g) IN
  CASE id = "C01" -> P_C01(cfg, pre, e, post, g)
    [] id = "C04" -> P_C04(cfg, pre, e, post, g)
    [] id = "C05" -> P_C05(cfg, pre, e, post, g)
    [] id = "C06" -> P_C06(cfg, pre, e, post, g)
    [] id = "C07" -> P_C07(cfg, pre, e, post, g)
    [] id = "C08" -> P_C08(cfg, pre, e, post, g)
    [] id = "C16" -> P_C16(cfg, pre, e, post, g)
=============================================================================
