----------------------------- MODULE SysMonitors -----------------------------
(***************************************************************************)
(* Wrapper semantics of #[cache] / #[cache_async] and the monitors of the  *)
(* properties that speak about decorated functions (C01, C03, C09, C10,    *)
(* C11, C14, C15) and about the invalidation registry (C12, C13).          *)
(*                                                                         *)
(* A macro-level call is logged as a `get` sub-event (the wrapper's lookup;*)
(* fields exec, inv*, cret) and, when the body ran, a `fin` sub-event      *)
(* (body result v/ok, cache_if consultation cif*, returned value cret).    *)
(* meta = wrapper attributes of the cache (kind, isResult, hasCif, hasInv, *)
(* stats, tags, events, deps, cacheName, fixture).                         *)
(***************************************************************************)
EXTENDS Monitors

\* does the wrapper store the result of an executed call?
ShouldStore(meta, r) ==
  IF meta.hasCif
  THEN r.cif = 1 /\ ((meta.kind # "async" /\ meta.isResult) => r.ok)
  ELSE (meta.isResult => r.ok)

\* does the wrapper run the body?  (r = macro-level get sub-event)
ShouldExecute(cfg, meta, pre, r) ==
  \/ r.k \notin Dom(pre)
  \/ Expired(cfg, pre.store[r.k])
  \/ meta.hasInv /\ r.inv = 1

\* engine-level event carried by a trace record
EngEvent(meta, r) ==
  [op |-> IF r.ev = "fin" THEN (IF ShouldStore(meta, r) THEN "ins" ELSE "noins") ELSE r.ev,
   k |-> r.k, v |-> r.v, size |-> r.size, mem |-> r.mem, ret |-> r.ret, d |-> r.d, panic |-> r.panic]

Stored(r, post) == r.k \in Dom(post) /\ post.store[r.k].val = r.v

\* a stored value may legitimately be gone when the store returns: oversize, or a never-hit
\* newcomer that is itself a legal victim of the overflow its own store caused (sync/thread only)
MayVanish(cfg, pre, e) ==
  \/ Oversize(cfg, e)
  \/ /\ NewcomerCompetes(cfg)
     /\ cfg.policy \in {"lfu", "arc", "tlru", "random"}
     /\ \/ cfg.limit # 0 /\ Cardinality(Dom(pre) \cup {e.k}) > cfg.limit
        \/ e.mem /\ cfg.maxmem # 0 /\ SizeOf(pre, Dom(pre) \ {e.k}) + e.size > cfg.maxmem

Unconfigured(cfg, meta) ==
  cfg.limit = 0 /\ cfg.ttl = 0 /\ cfg.maxmem = 0 /\ ~meta.hasCif /\ ~meta.hasInv /\ ~meta.isResult

-----------------------------------------------------------------------------
\* C01 (wrapper level): a served value is the latest value stored for these arguments in THIS
\* cache; an executed call returns the body's result
M_C01(cfg, meta, pre, r, post, g) ==
  /\ r.ev = "get" /\ ~r.exec /\ ~r.panic =>
        /\ r.ret # None /\ r.cret = r.ret
        /\ r.k \in DOMAIN g.val /\ r.cret = g.val[r.k]
        /\ r.k \in Dom(pre) /\ r.cret = pre.store[r.k].val
  /\ r.ev = "fin" /\ ~r.panic => r.cret = r.v /\ r.cok = r.ok

\* C03: computed once per distinct arguments when nothing is configured
M_C03(cfg, meta, pre, r, post, g) ==
  Unconfigured(cfg, meta) =>
     /\ r.ev = "get" => (r.exec <=> r.k \notin Dom(pre)) /\ Dom(post) = Dom(pre)
     /\ r.ev = "fin" => Stored(r, post) /\ Dom(post) = Dom(pre) \cup {r.k}

\* C09: Err never cached, a later Ok is
M_C09(cfg, meta, pre, r, post, g) ==
  meta.isResult /\ ~meta.hasCif =>
     /\ r.ev = "get" => (r.exec <=> ShouldExecute(cfg, meta, pre, r))
     /\ r.ev = "fin" /\ ~r.panic =>
          /\ ~r.ok => ~Stored(r, post) /\ Dom(post) = Dom(pre)
          /\ r.ok => Stored(r, post) \/ MayVanish(cfg, pre, EngEvent(meta, r))
          /\ r.ok => NoNeedlessLoss(cfg, pre, EngEvent(meta, r), post)

\* C10: cache_if
M_C10(cfg, meta, pre, r, post, g) ==
  meta.hasCif =>
     /\ r.ev = "get" => /\ r.exec <=> ShouldExecute(cfg, meta, pre, r)
                        /\ ~r.exec => r.cifn = 0
     /\ r.ev = "fin" /\ ~r.panic =>
          /\ r.cifn = 1 /\ r.cifkey = r.k /\ r.cifval = r.v /\ r.cifok = r.ok
          /\ r.cif = 0 => ~Stored(r, post) /\ Dom(post) = Dom(pre)
          /\ (meta.kind # "async" /\ meta.isResult /\ ~r.ok) => ~Stored(r, post)
          /\ ShouldStore(meta, r) => Stored(r, post) \/ MayVanish(cfg, pre, EngEvent(meta, r))
          /\ ShouldStore(meta, r) => NoNeedlessLoss(cfg, pre, EngEvent(meta, r), post)

\* C11: invalidate_on
M_C11(cfg, meta, pre, r, post, g) ==
  meta.hasInv =>
     /\ r.ev = "get" =>
          LET present == r.k \in Dom(pre) /\ ~Expired(cfg, pre.store[r.k]) IN
          /\ present => /\ r.invn = 1 /\ r.invkey = r.k /\ r.invval = pre.store[r.k].val
                        /\ r.inv = 0 => ~r.exec /\ r.cret = pre.store[r.k].val
                        /\ r.inv = 1 => r.exec
          /\ ~present => r.invn = 0 /\ r.exec
     /\ r.ev = "fin" /\ ~r.panic /\ ShouldStore(meta, r) =>
          /\ Stored(r, post) \/ MayVanish(cfg, pre, EngEvent(meta, r))
          /\ NoNeedlessLoss(cfg, pre, EngEvent(meta, r), post)
          \* the body only ran over a present, unexpired entry because the check called it stale:
          \* whatever happens to the fresh result, the stale value must be gone
          /\ (r.k \in Dom(pre) /\ ~Expired(cfg, pre.store[r.k])) =>
                (r.k \notin Dom(post) \/ post.store[r.k].val # pre.store[r.k].val)

\* C14: whether the body runs depends on exactly the cache the scope designates: the calling
\* thread's own cache for thread scope, the one shared cache otherwise
M_C14(cfg, meta, pre, r, post, g) ==
  /\ r.ev = "get" => (r.exec <=> ShouldExecute(cfg, meta, pre, r))
  \* thread scope: a store is bounded and evicts exactly as this thread's own cache requires - other
  \* threads' entries neither count against its limits nor make room in it
  /\ (meta.kind = "thread" /\ r.ev = "fin") =>
        /\ P_C04(cfg, pre, EngEvent(meta, r), post, g)
        /\ P_C05(cfg, pre, EngEvent(meta, r), post, g)
  \* global scope / async: ONE cache whoever calls - which entry a store displaces depends on the shared
  \* history (stores and uses by all threads), never on which thread made the calls
  /\ (meta.kind # "thread" /\ r.ev = "fin") =>
        /\ P_C04(cfg, pre, EngEvent(meta, r), post, g)
        /\ P_C07(cfg, pre, EngEvent(meta, r), post, g)
        /\ P_C08(cfg, pre, EngEvent(meta, r), post, g)

\* C15 (per lookup): exactly one counter moves, and it is the hit counter iff an unexpired entry
\* was found
M_C15(cfg, meta, pre, r, post, g) ==
  meta.stats /\ r.ev = "get" /\ ~r.panic =>
     LET hit == r.k \in Dom(pre) /\ ~Expired(cfg, pre.store[r.k]) IN
     /\ post.hitsS = pre.hitsS + (IF hit THEN 1 ELSE 0)
     /\ post.missS = pre.missS + (IF hit THEN 0 ELSE 1)

\* C20: a call that was suspended inside its body and is resumed stores its result normally -
\* against the state as it is NOW - and a result that is not to be stored changes nothing
M_C20(cfg, meta, pre, r, post, g) ==
  /\ (r.ev = "fin" /\ "task" \in DOMAIN r /\ r.task # "" /\ ~r.panic) =>
        IF ShouldStore(meta, r)
        THEN Stored(r, post) \/ MayVanish(cfg, pre, EngEvent(meta, r))
        ELSE post = pre
  \* ... "normally": the store obeys the bounds and evicts exactly as a store made now by an unsuspended
  \* call would (not according to what the call saw before it was suspended)
  /\ (r.ev = "fin" /\ "task" \in DOMAIN r /\ r.task # "" /\ ~r.panic /\ ShouldStore(meta, r)) =>
        /\ P_C04(cfg, pre, EngEvent(meta, r), post, g)
        /\ P_C05(cfg, pre, EngEvent(meta, r), post, g)
  \* ... and does not corrupt the cache: every stored key is still known to the queue (it can still be
  \* evicted), if that was so before
  /\ (r.ev = "fin" /\ "task" \in DOMAIN r /\ r.task # "" /\ ~r.panic /\ (cfg.limit # 0 \/ cfg.maxmem # 0)
        /\ Dom(pre) \subseteq SeqRange(pre.order)) =>
        Dom(post) \subseteq SeqRange(post.order)
  \* up to its first await the call has only performed its lookup: nothing is stored, nothing but an
  \* expired entry for its own key is removed (so a later drop leaves no trace of the call)
  /\ (r.ev = "get" /\ "task" \in DOMAIN r /\ r.task # "" /\ ~r.panic) =>
        /\ Dom(post) \subseteq Dom(pre)
        /\ Dom(pre) \ Dom(post) \subseteq ({r.k} \cap ExpiredKeys(cfg, WithGhostAges(pre, g)))

WrapperMonitorIds == {"C01", "C03", "C09", "C10", "C11", "C14", "C15", "C20"}

WMonitor(id, cfg, meta, pre0, r, post, g) ==
  LET pre == WithGhostAges(pre0, g) IN
  CASE id = "C01" -> M_C01(cfg, meta, pre, r, post, g)
    [] id = "C03" -> M_C03(cfg, meta, pre, r, post, g)
    [] id = "C09" -> M_C09(cfg, meta, pre, r, post, g)
    [] id = "C10" -> M_C10(cfg, meta, pre, r, post, g)
    [] id = "C11" -> M_C11(cfg, meta, pre, r, post, g)
    [] id = "C14" -> M_C14(cfg, meta, pre, r, post, g)
    [] id = "C15" -> M_C15(cfg, meta, pre, r, post, g)
    [] id = "C20" -> M_C20(cfg, meta, pre0, r, post, g)

-----------------------------------------------------------------------------
(* invalidation registry (C12 / C13) over ALL caches of a run                *)
(*   sts   : cache key -> state         metas : cache key -> meta            *)
(*   usedK : cache keys (global/async) whose function has been called        *)
(*   pm    : cacheName -> [tags, events, deps] of every global/async         *)
(*           function used so far in the process (registrations are          *)
(*           permanent), including functions outside this run                *)

HasMeta(m) == m.tags # <<>> \/ m.events # <<>> \/ m.deps # <<>>

InSeq(x, s) == \E i \in DOMAIN s : s[i] = x

GroupMatch(kind, x, m) ==
  CASE kind = "inv_tag"   -> InSeq(x, m.tags)
    [] kind = "inv_event" -> InSeq(x, m.events)
    [] kind = "inv_dep"   -> InSeq(x, m.deps)

\* caches of the run that a group / name request must empty
GroupTargets(kind, x, metas, usedK) ==
  {n \in usedK : HasMeta(metas[n]) /\ GroupMatch(kind, x, metas[n])}
NameTargets(x, metas, usedK) ==
  {n \in usedK : metas[n].cacheName = x /\ HasMeta(metas[n])}

\* expected return values, counted over everything registered in the process
GroupCount(kind, x, pm) == Cardinality({c \in DOMAIN pm : HasMeta(pm[c]) /\ GroupMatch(kind, x, pm[c])})

SelOf(sel, c) == IF c \in DOMAIN sel THEN {sel[c][i] : i \in DOMAIN sel[c]} ELSE {}

\* C12: every matching used cache is empty afterwards, the count is right
M_C12(r, metas, usedK, pm, pre, post) ==
  /\ r.ev \in {"inv_tag", "inv_event", "inv_dep"} =>
        /\ \A n \in GroupTargets(r.ev, r.x, metas, usedK) : Dom(post[n]) = {}
        /\ r.count = GroupCount(r.ev, r.x, pm)
  /\ r.ev = "inv_name" =>
        /\ \A n \in NameTargets(r.x, metas, usedK) : Dom(post[n]) = {}
        /\ r.found = (r.x \in DOMAIN pm /\ HasMeta(pm[r.x]))

\* C13: nothing else is touched; conditional invalidation removes exactly the selected keys and
\* leaves no residue in the queue
M_C13(r, metas, usedK, pm, pre, post) ==
  /\ r.ev \in {"inv_tag", "inv_event", "inv_dep"} =>
        LET T == GroupTargets(r.ev, r.x, metas, usedK) IN
        /\ \A n \in DOMAIN post \ T : post[n] = pre[n]
        /\ \A n \in T : post[n] = Clear(pre[n])
  /\ r.ev = "inv_name" =>
        LET T == NameTargets(r.x, metas, usedK) IN
        /\ \A n \in DOMAIN post \ T : post[n] = pre[n]
        /\ \A n \in T : post[n] = Clear(pre[n])
  /\ r.ev = "inv_with" =>
        LET T == {n \in usedK : metas[n].cacheName = r.x}
            S == {r.sel[i] : i \in DOMAIN r.sel} IN
        /\ \A n \in DOMAIN post \ T : post[n] = pre[n]
        /\ \A n \in T : post[n] = RemoveKeys(pre[n], S)
        /\ r.found = (r.x \in DOMAIN pm)
  /\ r.ev = "inv_all_with" =>
        /\ \A n \in DOMAIN post \ usedK : post[n] = pre[n]
        /\ \A n \in usedK : post[n] = RemoveKeys(pre[n], SelOf(r.sel, metas[n].cacheName))
        /\ r.count = Cardinality(DOMAIN pm)
-----------------------------------------------------------------------------
(* One record of a run (trace line or specification step) against ALL monitors. *)
(*   r     : the record (ev, n, k, ... as logged by the harness)                 *)
(*   pre / post : cache key -> state, before / after the record                 *)
(*   gs    : cache key -> ghost          xs : cache key -> expected statistics  *)

CacheOps == {"get", "ins", "fin"}
InvOps   == {"inv_tag", "inv_event", "inv_dep", "inv_name", "inv_with", "inv_all_with"}

IsMacro(r) == "exec" \in DOMAIN r \/ r.ev = "fin"

NoStats(c) == [c EXCEPT !.hitsS = 0, !.missS = 0]

X0 == [h |-> 0, m |-> 0]

\* ids of the monitors that are FALSE on this record
RecordFails(r, cfgs, metas, gs, xs, usedK, pm, pre, post) ==
  CASE r.ev \in CacheOps ->
         LET n == r.n
             cfg == cfgs[n]
             meta == metas[n]
             e == EngEvent(meta, r)
         IN {id \in EngineMonitorIds : ~Monitor(id, cfg, pre[n], e, post[n], gs[n])}
            \cup (IF IsMacro(r)
                  THEN {id \in WrapperMonitorIds : ~WMonitor(id, cfg, meta, pre[n], r, post[n], gs[n])}
                  ELSE {})
            \* frame: an operation on one cache leaves every other cache alone
            \cup {IF metas[m].fixture = meta.fixture THEN "C14" ELSE "C01" :
                    m \in {m \in DOMAIN post \ {n} : post[m] # pre[m]}}
    [] r.ev \in InvOps ->
         (IF M_C12(r, metas, usedK, pm, pre, post) THEN {} ELSE {"C12"})
         \cup (IF M_C13(r, metas, usedK, pm, pre, post) THEN {} ELSE {"C13"})
    [] r.ev = "stats_get" ->
         LET T == {n \in usedK : metas[n].cacheName = r.x} IN
         IF /\ r.found = (T # {} \/ r.x \in DOMAIN pm)
            /\ \A n \in T : r.hits = xs[n].h /\ r.misses = xs[n].m
            /\ post = pre
         THEN {} ELSE {"C15"}
    [] r.ev = "stats_reset" ->
         LET T == {n \in usedK : metas[n].cacheName = r.x} IN
         IF /\ r.found = (T # {} \/ r.x \in DOMAIN pm)
            /\ \A n \in T : post[n] = NoStats(pre[n])
            /\ \A n \in DOMAIN post \ T : post[n] = pre[n]
         THEN {} ELSE {"C15"}
    \* C20: a poll that leaves the call suspended, and dropping a suspended call, touch no cache and
    \* leave no lock held
    [] r.ev \in {"pend", "drop"} ->
         IF post = pre /\ ("locksFree" \in DOMAIN r => r.locksFree) THEN {} ELSE {"C20"}
    [] r.ev = "hang" -> {"C17", "C20"}     \* a call that does not return
    [] OTHER -> {}

\* ghost / bookkeeping updates driven by the record
GsNext(r, metas, gs, post) ==
  CASE r.ev \in CacheOps -> [gs EXCEPT ![r.n] = GNext(gs[r.n], EngEvent(metas[r.n], r), post[r.n])]
    [] r.ev \in InvOps   -> [n \in DOMAIN gs |-> GRestrict(gs[n], Dom(post[n]))]
    [] r.ev = "tick"     -> [n \in DOMAIN gs |-> [gs[n] EXCEPT !.age = [k \in DOMAIN @ |-> @[k] + r.d]]]
    [] OTHER -> gs

XsNext(r, cfgs, metas, gs, xs, usedK, pre) ==
  CASE r.ev = "get" ->
         LET pg == WithGhostAges(pre[r.n], gs[r.n])
             hit == r.k \in Dom(pg) /\ ~Expired(cfgs[r.n], pg.store[r.k]) IN
         [xs EXCEPT ![r.n] = IF hit THEN [@ EXCEPT !.h = @ + 1] ELSE [@ EXCEPT !.m = @ + 1]]
    [] r.ev = "stats_reset" ->
         [n \in DOMAIN xs |-> IF n \in usedK /\ metas[n].cacheName = r.x THEN X0 ELSE xs[n]]
    [] OTHER -> xs

-----------------------------------------------------------------------------
(* Concurrent sections (C03, C15, C16, C17, C18).  A `quiesce` record describes one complete     *)
(* schedule of a short multi-threaded program run on the real code under the cooperative        *)
(* scheduler: r.ops = per operation [t, i, op, f, k, exec, ret, bret, b, e, panic] (b / e = value *)
(* of the scheduler's step counter when the operation began / ended), r.sts = state of every     *)
(* cache once all threads have returned.  Caches start empty; body results are globally unique.  *)

CallsOn(r, fixture) == {i \in DOMAIN r.ops : r.ops[i].op = "call" /\ r.ops[i].f = fixture}

\* ghost to continue sequentially from an observed state
GhostOf(c) ==
  LET o == SelectSeq(c.order, LAMBDA x : x \in Dom(c)) IN
  [fifo |-> o, lru |-> o, gh |-> [k \in Dom(c) |-> c.store[k].hits], val |-> [k \in Dom(c) |-> c.store[k].val],
   age |-> [k \in Dom(c) |-> c.store[k].age]]

\* every stored key is known to the eviction queue (queue orphans are tolerated), bounds hold
\* "every entry it holds can still be evicted": only a bounded cache ever evicts, an unbounded one need
\* not keep a queue at all
HasBound(cfg) == cfg.limit # 0 \/ cfg.maxmem # 0
QuiescentOK(cfg, c) == (HasBound(cfg) => Dom(c) \subseteq SeqRange(c.order)) /\ WithinLimits(cfg, c)

QuiesceFails(r, cfgs, metas) ==
  LET ops == r.ops
      calls == {i \in DOMAIN ops : ops[i].op = "call"}
      produced(f, k) == {ops[j].bret : j \in {j \in calls : ops[j].f = f /\ ops[j].k = k /\ ops[j].exec}}
      resets == {i \in DOMAIN ops : ops[i].op = "stats_reset"}
  IN
  (IF \A n \in DOMAIN r.sts : QuiescentOK(cfgs[n], r.sts[n]) THEN {} ELSE {"C18"})
  \* each call returns a value its own function produced for its own arguments
  \cup (IF \A i \in calls : ~ops[i].panic =>
            /\ ops[i].ret \in produced(ops[i].f, ops[i].k)
            /\ ops[i].exec => ops[i].ret = ops[i].bret
        THEN {} ELSE {"C18"})
  \* ... and so is every value left in a cache
  \cup (IF \A n \in DOMAIN r.sts : \A k \in Dom(r.sts[n]) :
            r.sts[n].store[k].val \in produced(metas[n].fixture, k)
        THEN {} ELSE {"C18"})
  \* C03: no execution once a call that stored the result has returned
  \cup (IF \A i \in calls : \A j \in calls :
            ( /\ Unconfigured(cfgs[ops[i].f], metas[ops[i].f])
              /\ i # j /\ ops[i].f = ops[j].f /\ ops[i].k = ops[j].k
              /\ ops[j].exec /\ ops[j].e <= ops[i].b ) => ~ops[i].exec
        THEN {} ELSE {"C03"})
  \* C15: hits + misses = lookups; a lookup is a hit iff the body did not run
  \cup (IF \A n \in DOMAIN r.sts :
            (metas[n].stats /\ ~metas[n].hasInv /\ resets = {}) =>
               /\ r.sts[n].hitsS = Cardinality({i \in CallsOn(r, metas[n].fixture) : ~ops[i].exec /\ ~ops[i].panic})
               /\ r.sts[n].missS = Cardinality({i \in CallsOn(r, metas[n].fixture) : ops[i].exec /\ ~ops[i].panic})
        THEN {} ELSE {"C15"})
  \cup (IF r.panic THEN {"C16"} ELSE {})

\* a reported deadlock is genuine: every blocked thread waits for a lock that another blocked
\* thread holds in a conflicting mode
Conflicts(mode, held) == ~(mode = "r" /\ held = "r")
\* ... or (parking_lot's RwLock prefers writers) it wants to READ a lock that is read-held -- possibly by
\* itself: a recursive read -- while another blocked thread waits to WRITE it: new readers queue behind a
\* waiting writer, the writer waits for the readers to leave
HeldBy(r, j, lock, m) == \E h \in DOMAIN r.blocked[j].holds : r.blocked[j].holds[h] = lock \o ":" \o m
GenuineDeadlock(r) ==
  /\ r.blocked # <<>>
  /\ \A i \in DOMAIN r.blocked :
       \/ \E j \in DOMAIN r.blocked : j # i /\
             \E m \in {"r", "w", "x"} :
                HeldBy(r, j, r.blocked[i].wants, m) /\ Conflicts(r.blocked[i].mode, m)
       \/ /\ r.blocked[i].mode = "r"
          /\ \E j \in DOMAIN r.blocked : j # i /\ r.blocked[j].wants = r.blocked[i].wants /\ r.blocked[j].mode = "w"
          /\ \E j \in DOMAIN r.blocked : HeldBy(r, j, r.blocked[i].wants, "r")

RegMeta(m) == [fixture |-> m.fixture, tags |-> m.tags, events |-> m.events, deps |-> m.deps]

UsedNext(r, metas, usedK) ==
  IF r.ev \in CacheOps /\ metas[r.n].kind # "thread" THEN usedK \cup {r.n} ELSE usedK

PmNext(r, metas, pm) ==
  IF r.ev \in CacheOps /\ metas[r.n].kind # "thread" /\ metas[r.n].cacheName \notin DOMAIN pm
  THEN (metas[r.n].cacheName :> RegMeta(metas[r.n])) @@ pm ELSE pm
=============================================================================
