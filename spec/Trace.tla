-------------------------------- MODULE Trace --------------------------------
(***************************************************************************)
(* Trace validation (code -> spec).  The harness logs one ndjson line per  *)
(* operation of the real code together with the FULL projected state of    *)
(* every cache of the run.  This module replays the file: for each line it *)
(* evaluates                                                               *)
(*   (a) every property monitor on (pre, event, post, ghost)  -> "FAIL"    *)
(*   (b) the operational specification's own action as a predicate on the  *)
(*       observed pre/post pair                                -> "DRIFT"  *)
(* and prints one tuple per failure instead of blocking, so one bad line   *)
(* never hides the rest of the file.  Ghost state is recomputed here from  *)
(* the events, never read from the log.                                    *)
(***************************************************************************)
EXTENDS Monitors, Json, IOUtils

Rec == ndJsonDeserialize(IOEnv.TRACE)

VARIABLES l,     \* number of lines consumed
          cfgs,  \* cache name -> cfg   (from the last reset line)
          gs     \* cache name -> ghost

tvars == <<l, cfgs, gs>>

ToEvent(r) == [op |-> r.ev, k |-> r.k, v |-> r.v, size |-> r.size, mem |-> r.mem,
               ret |-> r.ret, d |-> r.d, panic |-> r.panic]

Report(kind, id, line) == PrintT(<<kind, id, line>>)

\* IF-THEN-ELSE, not a disjunction: TLC would explore both disjuncts of an action-level "\/"
Check(ok, kind, id, line) == IF ok THEN TRUE ELSE Report(kind, id, line)

\* the operational specification as a predicate on an observed step
SpecStep(cfg, pre, e, post) ==
  CASE e.op = "get"  -> LET r == Get(cfg, pre, e.k) IN ~e.panic /\ post = r.c /\ e.ret = r.ret
    [] e.op = "ins"  -> [c |-> post, panic |-> e.panic] \in Insert(cfg, pre, e.k, e.v, e.size, e.mem)
    [] e.op = "tick" -> post = Tick(pre, e.d)
    [] OTHER -> TRUE

EngineOps == {"get", "ins"}

Init == /\ l = 1
        /\ Rec[1].ev = "reset"
        /\ cfgs = Rec[1].cfgs
        /\ gs = [n \in DOMAIN Rec[1].sts |-> G0]

Consume ==
  /\ l < Len(Rec)
  /\ LET r == Rec[l + 1]
         prev == Rec[l]
         line == l + 1
     IN
     CASE r.ev = "reset" ->
            /\ cfgs' = r.cfgs
            /\ gs' = [n \in DOMAIN r.sts |-> G0]
       [] r.ev \in EngineOps ->
            LET n == r.n
                cfg == cfgs[n]
                pre == prev.sts[n]
                post == r.sts[n]
                e == ToEvent(r)
            IN /\ \A id \in EngineMonitorIds :
                     Check(Monitor(id, cfg, pre, e, post, gs[n]), "FAIL", id, line)
               /\ Check(SpecStep(cfg, pre, e, post), "DRIFT", "engine", line)
               /\ Check(\A m \in DOMAIN r.sts \ {n} : r.sts[m] = prev.sts[m], "DRIFT", "frame", line)
               /\ gs' = [gs EXCEPT ![n] = GNext(gs[n], e, post)]
               /\ UNCHANGED cfgs
       [] r.ev = "tick" ->
            /\ Check(\A m \in DOMAIN r.sts : r.sts[m] = Tick(prev.sts[m], r.d), "DRIFT", "tick", line)
            /\ UNCHANGED <<cfgs, gs>>
       [] OTHER ->
            /\ Report("DRIFT", "unknown-event", line)
            /\ UNCHANGED <<cfgs, gs>>
  /\ l' = l + 1

Next == Consume

TraceSpec == Init /\ [][Next]_tvars

\* printed exactly once, when the whole file has been consumed
Done == IF l < Len(Rec) THEN TRUE ELSE PrintT(<<"DONE", "trace", l>>)
=============================================================================
