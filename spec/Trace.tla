-------------------------------- MODULE Trace --------------------------------
(***************************************************************************)
(* Trace validation (code -> spec).  The harness logs one ndjson line per  *)
(* operation (macro-level calls: one or two sub-events) of the real code   *)
(* together with the FULL projected state of every cache of the run.       *)
(* This module replays the file: for each line it evaluates                *)
(*   (a) every property monitor on (pre, event, post, ghost)   -> "FAIL"   *)
(*   (b) the operational specification's own action as a predicate on the  *)
(*       observed pre/post pair                                 -> "DRIFT" *)
(* and prints one tuple per failure instead of blocking, so one bad line   *)
(* never hides the rest of the file.  Ghost state (store order, recency    *)
(* order, hit counts, latest values, expected statistics, used functions)  *)
(* is recomputed here from the events, never read from the log.            *)
(***************************************************************************)
EXTENDS SysMonitors, Json, IOUtils

Rec == ndJsonDeserialize(IOEnv.TRACE)

VARIABLES l,      \* number of lines consumed
          cfgs,   \* cache key -> cfg            (from the last reset line)
          metas,  \* cache key -> wrapper attributes
          gs,     \* cache key -> ghost
          xs,     \* cache key -> expected statistics [h, m] since the last reset of that cache
          usedK,  \* cache keys (global / async) whose function has been called
          pm,     \* cacheName -> registered invalidation metadata (process wide)
          probe   \* TRUE while replaying the sequential probe that follows a concurrent section

tvars == <<l, cfgs, metas, gs, xs, usedK, pm, probe>>

\* IF-THEN-ELSE, not a disjunction: TLC would explore both disjuncts of an action-level "\/"
Check(ok, kind, id, line) == IF ok THEN TRUE ELSE PrintT(<<kind, id, line>>)

Cmp(meta, c) == IF meta.stats THEN c ELSE NoStats(c)

\* the operational specification as a predicate on an observed step of one cache
SpecStep(cfg, meta, pre, e, post) ==
  CASE e.op = "get"   -> LET r == Get(cfg, pre, e.k) IN
                         ~e.panic /\ Cmp(meta, post) = Cmp(meta, r.c) /\ e.ret = r.ret
    [] e.op = "ins"   -> \E s \in Insert(cfg, pre, e.k, e.v, e.size, e.mem) :
                            s.panic = e.panic /\ Cmp(meta, s.c) = Cmp(meta, post)
    [] e.op = "noins" -> post = pre /\ ~e.panic
    [] OTHER -> TRUE

ConcFails(r) ==
  CASE r.ev = "quiesce"  -> QuiesceFails(r, r.cfgs, r.metas)
    [] r.ev = "deadlock" -> IF GenuineDeadlock(r) THEN {"C17"} ELSE {"bogus-deadlock-report"}
    [] r.ev = "hang"     -> {"C17", "C20"}     \* a call that does not return
    [] OTHER -> {}

InitFrom(r) ==
  /\ cfgs = r.cfgs
  /\ metas = r.metas
  /\ gs = [n \in DOMAIN r.sts |-> G0]
  /\ xs = [n \in DOMAIN r.sts |-> X0]
  /\ usedK = {n \in DOMAIN r.metas : r.metas[n].warm /\ r.metas[n].kind # "thread"}
  /\ pm = r.pmetas
  /\ probe = FALSE

Init == /\ l = 0
        /\ cfgs = <<>> /\ metas = <<>> /\ gs = <<>> /\ xs = <<>> /\ usedK = {} /\ pm = <<>>
        /\ probe = FALSE

Consume ==
  /\ l < Len(Rec)
  /\ LET r == Rec[l + 1]
         prev == IF l = 0 THEN r ELSE Rec[l]
         line == l + 1
     IN
     IF r.ev = "reset"
     THEN /\ cfgs' = r.cfgs /\ metas' = r.metas
          /\ gs' = [n \in DOMAIN r.sts |-> G0]
          /\ xs' = [n \in DOMAIN r.sts |-> X0]
          /\ usedK' = {n \in DOMAIN r.metas : r.metas[n].warm /\ r.metas[n].kind # "thread"}
          /\ pm' = r.pmetas
          /\ probe' = FALSE
     ELSE IF r.ev \in {"quiesce", "deadlock", "hang"}
     THEN /\ \A id \in ConcFails(r) : PrintT(<<"FAIL", id, line>>)
          /\ IF r.ev = "quiesce"
             THEN /\ cfgs' = r.cfgs /\ metas' = r.metas
                  /\ gs' = [n \in DOMAIN r.sts |-> GhostOf(r.sts[n])]
                  /\ xs' = [n \in DOMAIN r.sts |-> [h |-> r.sts[n].hitsS, m |-> r.sts[n].missS]]
                  /\ usedK' = {n \in DOMAIN r.metas : r.metas[n].kind # "thread"}
                  /\ pm' = r.pmetas
                  /\ probe' = TRUE
             ELSE UNCHANGED <<cfgs, metas, gs, xs, usedK, pm, probe>>
     ELSE /\ \A id \in RecordFails(r, cfgs, metas, gs, xs, usedK, pm, prev.sts, r.sts) :
                PrintT(<<"FAIL", id, line>>)
          /\ r.ev \in CacheOps =>
                Check(SpecStep(cfgs[r.n], metas[r.n], prev.sts[r.n], EngEvent(metas[r.n], r), r.sts[r.n]),
                      "DRIFT", "engine", line)
          /\ r.ev = "tick" =>
                Check(\A m \in DOMAIN r.sts : r.sts[m] = Tick(prev.sts[m], r.d), "DRIFT", "tick", line)
          /\ r.ev \notin CacheOps \cup InvOps \cup {"tick", "stats_get", "stats_reset", "pend", "drop", "hang"} =>
                Check(FALSE, "DRIFT", "unknown-event", line)
          /\ gs' = GsNext(r, metas, gs, r.sts)
          /\ xs' = XsNext(r, cfgs, metas, gs, xs, usedK, prev.sts)
          /\ usedK' = UsedNext(r, metas, usedK)
          /\ pm' = PmNext(r, metas, pm)
          \* C18: sequential use after a concurrent section respects the bounds and returns
          \* correct values
          /\ (probe /\ r.ev \in CacheOps) =>
                Check(/\ WithinLimits(cfgs[r.n], r.sts[r.n])
                      /\ ~r.panic
                      /\ "C01" \notin RecordFails(r, cfgs, metas, gs, xs, usedK, pm, prev.sts, r.sts),
                      "FAIL", "C18", line)
          /\ UNCHANGED <<cfgs, metas, probe>>
  /\ l' = l + 1

Next == Consume

TraceSpec == Init /\ [][Next]_tvars

\* printed exactly once, when the whole file has been consumed
Done == IF l < Len(Rec) THEN TRUE ELSE PrintT(<<"DONE", "trace", l>>)
=============================================================================
