-------------------------------- MODULE Attrs --------------------------------
(***************************************************************************)
(* Meaning of the attribute lists of #[cache(...)] / #[cache_async(...)]   *)
(* (C19).  A row describes one decorated function: for every attribute the *)
(* CLASS of the literal that was written (or "absent").  Expected(row) is  *)
(* either "reject" (the macro must refuse to compile it) or the engine     *)
(* configuration the generated function must behave like.                  *)
(*                                                                         *)
(* Literal classes (the same strings the corpus generator uses):           *)
(*   limit   absent | int:N | str | neg | float                            *)
(*   policy  absent | str:fifo|lru|lfu|arc|random|tlru | str:other | int   *)
(*   ttl     absent | int:N | str | neg                                    *)
(*   maxmem  absent | int:N | str:N | str:NKB | str:NMB | str:NGB |        *)
(*           str:Nkb (lower case) | str:frac (1.5MB) | str:unit (12XB) |   *)
(*           bool                                                          *)
(*   scope   absent | str:global | str:thread | str:other | int            *)
(*           (scope is not an attribute of cache_async: there it is an     *)
(*            unknown attribute)                                           *)
(*   weight  absent | float:X | int:N | zero | str                         *)
(*   unknown absent | present   (an attribute name the macro does not know)*)
(***************************************************************************)
EXTENDS Naturals, Sequences, TLC, Json, IOUtils

KB == 1024
MB == 1024 * 1024

\* rows carry the parsed numbers next to the class so that no string parsing is needed here:
\*   limit  = [cls, n]   ttl = [cls, n]   maxmem = [cls, n]   policy = [cls, p]   scope = [cls, s]
\*   weight = [cls, w]   (w = the weight id used by the score table: "none", "0.3", "1.5", "2")

LimitOK(r)  == r.limit.cls \in {"absent", "int"}
TtlOK(r)    == r.ttl.cls \in {"absent", "int"}
PolicyOK(r) == r.policy.cls = "absent" \/ (r.policy.cls = "str" /\ r.policy.p \in {"fifo", "lru", "lfu", "arc", "random", "tlru"})
MemOK(r)    == r.maxmem.cls \in {"absent", "int", "strnum", "kb", "mb", "gb", "lowerkb"}
ScopeOK(r)  == IF r.macro = "async" THEN r.scope.cls = "absent"
               ELSE r.scope.cls = "absent" \/ (r.scope.cls = "str" /\ r.scope.s \in {"global", "thread"})
WeightOK(r) == r.weight.cls \in {"absent", "float", "int"}

Valid(r) == LimitOK(r) /\ TtlOK(r) /\ PolicyOK(r) /\ MemOK(r) /\ ScopeOK(r) /\ WeightOK(r) /\ r.unknown = "absent"

\* units are powers of 1024.  TLC has 32-bit integers: limits of 2 GiB and more are represented by
\* Huge ("larger than anything that is ever stored"), without evaluating the overflowing product
Huge == 2147483647
MemBytes(r) ==
  CASE r.maxmem.cls = "absent" -> 0
    [] r.maxmem.cls \in {"int", "strnum"} -> r.maxmem.n
    [] r.maxmem.cls \in {"kb", "lowerkb"} -> IF r.maxmem.n >= 2 * MB THEN Huge ELSE r.maxmem.n * KB
    [] r.maxmem.cls = "mb" -> IF r.maxmem.n >= 2 * KB THEN Huge ELSE r.maxmem.n * MB
    [] r.maxmem.cls = "gb" -> IF r.maxmem.n >= 2 THEN Huge ELSE r.maxmem.n * MB * KB

Flavour(r) == IF r.macro = "async" THEN "async"
              ELSE IF r.scope.cls = "str" /\ r.scope.s = "thread" THEN "thread" ELSE "sync"

Expected(r) ==
  IF ~Valid(r) THEN [verdict |-> "reject"]
  ELSE [verdict |-> "accept",
        cfg |-> [flavour |-> Flavour(r),
                 policy |-> IF r.policy.cls = "absent" THEN "fifo" ELSE r.policy.p,
                 limit |-> IF r.limit.cls = "absent" THEN 0 ELSE r.limit.n,
                 ttl |-> IF r.ttl.cls = "absent" THEN 0 ELSE r.ttl.n,
                 maxmem |-> MemBytes(r),
                 w |-> IF r.weight.cls = "absent" THEN "none" ELSE r.weight.w]]

-----------------------------------------------------------------------------
(* evaluation of a corpus file: one row per line, with the corpus generator's own expectation; *)
(* any disagreement between generator and specification is printed                              *)
Rec == ndJsonDeserialize(IOEnv.TRACE)
VARIABLE l
Init == l = 0
Next == /\ l < Len(Rec)
        /\ LET r == Rec[l + 1]
               e == Expected(r)
           IN IF e.verdict = r.expect.verdict /\ (e.verdict = "accept" => e.cfg = r.expect.cfg)
              THEN TRUE ELSE PrintT(<<"FAIL", "generator-disagrees", l + 1>>)
        /\ l' = l + 1
ASpec == Init /\ [][Next]_l
Done == IF l < Len(Rec) THEN TRUE ELSE PrintT(<<"DONE", "attrs", l>>)
=============================================================================
