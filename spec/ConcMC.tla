------------------------------- MODULE ConcMC -------------------------------
(* Bounded instances of Conc.tla: every 2-thread program over a small alphabet, started from an
   empty, a full and an expired cache, for sync and async caches. *)
EXTENDS Conc

CONSTANTS Flavs, Pols, Limits, Ttls, MaxOps, NThreads

Cfgs == { [flavour |-> f, policy |-> p, limit |-> l, ttl |-> t, maxmem |-> 0, w |-> "none"] :
            f \in Flavs, p \in Pols, l \in Limits, t \in Ttls }

Alphabet == { [op |-> "call", k |-> "k1"], [op |-> "call", k |-> "k2"], [op |-> "call", k |-> "k3"],
              [op |-> "inv_with", sel |-> {"k1"}, naux |-> 1], [op |-> "inv_with", sel |-> {"k1", "k2", "k3"}, naux |-> 1],
              [op |-> "clear", naux |-> 1], [op |-> "callx", k |-> "k1"] }

Progs == UNION { [1..n -> Alphabet] : n \in 1..MaxOps }

E(v, age) == [val |-> v, hits |-> 0, age |-> age, size |-> 1]

\* initial caches: empty; filled up to the limit; filled and expired
Starts(cf) ==
  {EmptyCache}
  \cup { [EmptyCache EXCEPT !.store = [k \in SeqRange(ks) |-> E(IF k = "k1" THEN 1 ELSE 2, a)], !.order = ks] :
           ks \in (IF cf.limit = 1 THEN {<<"k1">>} ELSE {<<"k1", "k2">>}),
           a \in (IF cf.ttl = 0 THEN {0} ELSE {0, cf.ttl}) }

Init ==
  /\ cfg \in Cfgs
  /\ c \in Starts(cfg)
  /\ c0 = c
  /\ ver = 10
  /\ prog \in [1..NThreads -> Progs]
  /\ pc = [t \in 1..NThreads |-> PC0]
  /\ mapL = 0 /\ orderL = 0
  /\ res = [t \in 1..NThreads |-> <<>>]

Next == \E t \in Threads : Step(t)

Spec == Init /\ [][Next]_cvars
=============================================================================
