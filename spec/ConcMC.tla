------------------------------- MODULE ConcMC -------------------------------
(* Bounded instances of Conc.tla: every 2-thread program over a small alphabet, started from an
   empty, a full and an expired cache, for sync and async caches. *)
EXTENDS Conc

CONSTANTS Flavs, Pols, Limits, Ttls, Maxmems, MaxOps, NThreads

Cfgs == { [flavour |-> f, policy |-> p, limit |-> l, ttl |-> t, maxmem |-> m, w |-> "none"] :
            f \in Flavs, p \in Pols, l \in Limits, t \in Ttls, m \in Maxmems }

Alphabet(cf) ==
  (IF cf.maxmem = 0 THEN {[op |-> "call", k |-> "k2"], [op |-> "call", k |-> "k3"]}
   ELSE {[op |-> "call", k |-> "k2", size |-> 2], [op |-> "call", k |-> "k3", size |-> 4]})
  \cup     { [op |-> "call", k |-> "k1"],
              [op |-> "inv_with", sel |-> {"k1"}, naux |-> 1], [op |-> "inv_with", sel |-> {"k1", "k2", "k3"}, naux |-> 1],
              [op |-> "clear", naux |-> 1], [op |-> "callx", k |-> "k1"] }

Progs(cf) == UNION { [1..n -> Alphabet(cf)] : n \in 1..MaxOps }

E(v, age) == [val |-> v, hits |-> 0, age |-> age, size |-> 1]

\* initial caches: empty; filled up to the limit; filled and expired
Starts(cf) ==
  {EmptyCache}
  \cup { [EmptyCache EXCEPT !.store = [k \in SeqRange(ks) |-> E(IF k = "k1" THEN 1 ELSE 2, a)], !.order = ks] :
           ks \in (IF cf.limit = 1 THEN {<<"k1">>} ELSE {<<"k1", "k2">>}),
           a \in (IF cf.ttl = 0 THEN {0} ELSE {0, cf.ttl}) }

Init ==
  /\ cfg \in Cfgs
  /\ c \in Starts(cfg)
  /\ c0 = c
  /\ ver = 10
  /\ prog \in [1..NThreads -> Progs(cfg)]
  /\ pc = [t \in 1..NThreads |-> PC0]
  /\ mapL = 0 /\ orderL = 0
  /\ res = [t \in 1..NThreads |-> <<>>]

Next == \E t \in Threads : Step(t)

Spec == Init /\ [][Next]_cvars
=============================================================================
