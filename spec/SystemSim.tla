------------------------------ MODULE SystemSim ------------------------------
(***************************************************************************)
(* Spec -> code: TLC generates behaviours of System.tla for the            *)
(* configuration of a REAL fixture (FixtureLayouts is generated from the   *)
(* harness' fixture table) and prints each as a script; the harness runs   *)
(* the scripts against the macro-generated function and the recorded       *)
(* steps are validated by Trace.tla.  Run with  -simulate num=N -depth D.  *)
(***************************************************************************)
EXTENDS System, FixtureLayouts, Json

CONSTANTS SimKeys, Depth, Sizes

VARIABLES hist, fx    \* operations generated so far (with all their inputs), the fixture chosen
simvars == <<cfgs, metas, cs, ver, pending, susp, gs, xs, usedK, pm, last, hist, fx>>

Init ==
  /\ \E L \in FixtureLayouts :
        /\ fx = L.fx
        /\ cfgs = (L.fx :> L.cfg) /\ metas = (L.fx :> L.meta)
        /\ cs = (L.fx :> EmptyCache)
        /\ gs = (L.fx :> G0) /\ xs = (L.fx :> X0)
  /\ ver = 0 /\ pending = NoPending /\ susp = {} /\ usedK = {} /\ pm = <<>> /\ last = Rec0
  /\ hist = <<>>

Extra == (CHOOSE L \in FixtureLayouts : L.fx = fx).extra

Next ==
  \/ \E k \in SimKeys, vd \in {0, 1} :
        /\ CallGet(fx, k, vd)
        /\ hist' = Append(hist, [op |-> "call", f |-> fx, k |-> k, inv |-> (vd = 1), ok |-> TRUE, cif |-> TRUE, size |-> 40])
        /\ UNCHANGED fx
  \/ \E ok \in BOOLEAN, cv \in {0, 1}, s \in Sizes :
        /\ CallFin(ok, cv, IF cfgs[fx].maxmem = 0 THEN 1 ELSE s + Extra)
        /\ hist' = [hist EXCEPT ![Len(hist)] = [@ EXCEPT !.ok = ok, !.cif = (cv = 1), !.size = s]]
        /\ UNCHANGED fx
  \/ /\ TickAll
     /\ hist' = Append(hist, [op |-> "tick", d |-> 1])
     /\ UNCHANGED fx
  \/ \E S \in {{"1"}, {"2", "3"}, SimKeys} :
        /\ metas[fx].kind # "thread"
        /\ InvWith(metas[fx].cacheName, S)
        /\ hist' = Append(hist, [op |-> "inv_with", x |-> metas[fx].cacheName, sel |-> SetAsSeq(S)])
        /\ UNCHANGED fx

Spec == Init /\ [][Next]_simvars

\* printed for every generated behaviour once it is complete
Emit == IF Len(hist) # Depth \/ ~Idle THEN TRUE
        ELSE PrintT(<<"SCRIPT", ToJson([fixture |-> fx, ops |-> hist, final |-> cs[fx]])>>)

NoFail == RecordFails(last, cfgs, metas, gs, xs, usedK, pm, cs, cs) = {} \/ TRUE
=============================================================================
