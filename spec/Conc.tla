-------------------------------- MODULE Conc --------------------------------
(***************************************************************************)
(* Lock-granular concurrent specification of ONE global (sync) or async    *)
(* cache used by several threads through the macro-generated wrapper and   *)
(* the invalidation registry.                                              *)
(*                                                                         *)
(* Grain of atomicity = the cooperative scheduler the harness runs the     *)
(* real code under: a step is "thread t is granted the lock it waits for   *)
(* and runs until its next lock request (or the end of its program)".      *)
(* Lock-free code (DashMap operations of the async cache, statistics       *)
(* counters, the function body) executes inside the step that precedes it. *)
(* Each thread's code is a small label machine: RunFrom executes labels    *)
(* that need no lock and stops at the first label that does.               *)
(*                                                                         *)
(*   locks: "map" (RwLock of the sync store), "order" (queue mutex),       *)
(*          "aux" (registry RwLocks, only ever read-locked after warm-up)  *)
(*                                                                         *)
(* sync  call(k): get.read(map:r) -> [expired: exp.order(order) ->         *)
(*        exp.map(map:w)] -> [hit: hit.order(order) / hit.freq(map:w)] ->  *)
(*        body -> ins.put(map:w) -> ins.order(order) -> [ins.evict(map:w)] *)
(* async call(k): lookup lock-free -> [expired: exp(order)] ->             *)
(*        [hit+recency: hit(order)] -> body -> ins(order), all of insert   *)
(*        inside one critical section                                      *)
(* invalidate_with : aux:r -> order -> map:w        (sync, as repaired)    *)
(*                   aux:r -> collect -> order      (async)                *)
(* clear (by name) : aux:r -> order -> map:w        (sync, as repaired)    *)
(*                   aux:r -> order                 (async, as repaired)   *)
(* Quirk switches restore the as-found protocols.                          *)
(***************************************************************************)
EXTENDS Engine

CONSTANTS CQuirks   \* subset of {"cond_callback_lock_inversion", "clear_not_atomic", "async_expiry_not_atomic"}

VARIABLES cfg,     \* configuration of the cache (policies fifo / lru / lfu; no memory limit)
          c,       \* cache state
          ver,     \* body results (globally unique, increasing)
          prog,    \* thread -> sequence of operations
          pc,      \* thread -> [i (operation index), lbl, want (lock request or NoWant), + locals]
          c0,      \* the cache state the threads started from (constant after Init)
          mapL,    \* "free" | the thread holding the write lock (read locks never outlive a step)
          orderL,  \* "free" | thread
          res      \* thread -> sequence of operation results [exec, ret]

cvars == <<cfg, c, c0, ver, prog, pc, mapL, orderL, res>>

Threads == DOMAIN prog
NoWant == [lock |-> "", mode |-> ""]
W(lock, mode) == [lock |-> lock, mode |-> mode]

\* operations:  [op |-> "call", k |-> key]  [op |-> "inv_with", sel |-> set of keys]
\*              [op |-> "clear"]  (invalidate_cache by name)  [op |-> "aux"] (statistics query)

-----------------------------------------------------------------------------
(* thread-local record: i, lbl, want, k, v (value being stored), hitv, coll (collected keys) *)

PC0 == [i |-> 1, lbl |-> "start", want |-> W("start", "y"), k |-> "", v |-> 0, hitv |-> None, coll |-> {},
        aux |-> 0, done |-> FALSE]

Sync == cfg.flavour = "sync"

\* the state a thread's code works on while it runs
\* st = [c, ver, p (pc record), out (results appended)]

OpSize(o) == IF "size" \in DOMAIN o THEN o.size ELSE 1

Finish(st, exec, ret) ==
  [st EXCEPT !.p.i = @ + 1, !.p.lbl = "next", !.out = Append(@, [exec |-> exec, ret |-> ret])]

Body(st) == [st EXCEPT !.ver = @ + 1, !.p.v = st.ver + 1]

\* ----- lock-free code: returns the state at the next lock request (p.want set) or program end
RECURSIVE RunFrom(_, _)
RunFrom(ops, st) ==
  LET p == st.p IN
  IF p.lbl = "next" \/ p.lbl = "start"
  THEN IF p.i > Len(ops) THEN [st EXCEPT !.p.done = TRUE, !.p.want = NoWant, !.p.lbl = "end"]
       ELSE LET o == ops[p.i] IN
            CASE o.op \in {"call", "callx"} ->
                   IF Sync THEN [st EXCEPT !.p.lbl = "get.read", !.p.k = o.k, !.p.want = W("map", "r")]
                   ELSE RunFrom(ops, [st EXCEPT !.p.lbl = "a.get", !.p.k = o.k])
              [] o.op \in {"inv_with", "clear", "aux", "sreset"} ->
                   \* o.naux registry read locks are taken one after the other before anything else
                   [st EXCEPT !.p.lbl = o.op \o ".aux", !.p.want = W("aux", "r"), !.p.aux = o.naux]
  ELSE IF p.lbl = "a.get"
  THEN \* async lookup: DashMap only
       LET k == p.k IN
       IF k \notin Dom(st.c)
       THEN RunFrom(ops, [Body([st EXCEPT !.c.missS = @ + 1]) EXCEPT !.p.lbl = "a.ins.req"])
       ELSE IF Expired(cfg, st.c.store[k])
       THEN IF "async_expiry_not_atomic" \in CQuirks
            THEN \* as found: the map entry goes first, the queue later under the lock
                 [st EXCEPT !.c.store = Without(@, {k}), !.p.lbl = "a.exp.asfound", !.p.want = W("order", "x")]
            ELSE [st EXCEPT !.p.lbl = "a.exp", !.p.want = W("order", "x")]
       ELSE LET c1 == IF FrequencyPolicy(cfg.policy) THEN [st.c EXCEPT !.store[k].hits = @ + 1] ELSE st.c
                c2 == [c1 EXCEPT !.hitsS = @ + 1]
                v == st.c.store[k].val
            IN IF RecencyPolicy(cfg.policy) /\ AsyncRecencyGuard(cfg)
               THEN [st EXCEPT !.c = c2, !.p.hitv = v, !.p.lbl = "a.hit", !.p.want = W("order", "x")]
               ELSE RunFrom(ops, Finish([st EXCEPT !.c = c2], FALSE, v))
  ELSE IF p.lbl = "a.ins.req"
  THEN IF ops[p.i].op = "callx" THEN RunFrom(ops, Finish(st, TRUE, p.v))   \* result not stored
       ELSE [st EXCEPT !.p.lbl = "a.ins", !.p.want = W("order", "x")]
  ELSE IF p.lbl = "ins.req"
  THEN IF ops[p.i].op = "callx" THEN RunFrom(ops, Finish(st, TRUE, p.v))
       ELSE [st EXCEPT !.p.lbl = IF cfg.maxmem # 0 THEN "mins.put" ELSE "ins.put", !.p.want = W("map", "w")]
  ELSE st

FirstOf(S) == CHOOSE x \in S : TRUE

\* deterministic victim: the scans take the FIRST minimal queue position (fifo / lru pop the front)
FirstEvict(cf, cc) ==
  IF cf.policy \in {"lfu", "arc", "tlru"}
  THEN LET P == MinScorePositions(cf, cc) IN
       IF P = {} THEN cc ELSE RemoveKey(cf, cc, cc.order[MinOf(P)])
  ELSE FirstOf(EvictOne(cf, cc, "limit")).c

\* the memory loop stops when nothing can be evicted any more
CanEvict(cf, cc) ==
  IF cf.policy \in {"lfu", "arc", "tlru"} THEN LivePositions(cc) # {} ELSE cc.order # <<>>

\* async memory loop (inside the queue lock): evict first-minimal / queue front until the pending value fits
RECURSIVE AsyncMemLoop(_, _, _)
AsyncMemLoop(cf, cc, pending) ==
  IF TotalSize(cc) + pending <= cf.maxmem \/ ~CanEvict(cf, cc) THEN cc
  ELSE AsyncMemLoop(cf, IF cf.policy \in {"lfu", "arc", "tlru"} THEN FirstEvict(cf, cc)
                        ELSE [cc EXCEPT !.order = Tail(@), !.store = Without(@, {Head(cc.order)})], pending)

\* ----- the critical section entered when thread t is granted p.want; returns
\*       [st, hold (locks still held afterwards), cont (TRUE: continue lock-free code)]
Granted(ops, st) ==
  LET p == st.p
      k == p.k
      cc == st.c
  IN
  CASE p.lbl = "start" -> [st |-> st, hold |-> {}, go |-> TRUE]
    [] p.aux > 1 -> [st |-> [st EXCEPT !.p.aux = @ - 1], hold |-> {}, go |-> FALSE]
    \* ---------------- sync call
    [] p.lbl = "get.read" ->
         IF k \notin Dom(cc)
         THEN [st |-> [Body([st EXCEPT !.c.missS = @ + 1]) EXCEPT !.p.lbl = "ins.req"], hold |-> {}, go |-> TRUE]
         ELSE IF Expired(cfg, cc.store[k])
         THEN [st |-> [st EXCEPT !.p.lbl = "exp.order", !.p.want = W("order", "x")], hold |-> {}, go |-> FALSE]
         ELSE LET v == cc.store[k].val
                  s1 == [st EXCEPT !.c.hitsS = @ + 1, !.p.hitv = v] IN
              IF RecencyPolicy(cfg.policy)
              THEN [st |-> [s1 EXCEPT !.p.lbl = "hit.order", !.p.want = W("order", "x")], hold |-> {}, go |-> FALSE]
              ELSE IF FrequencyPolicy(cfg.policy)
              THEN [st |-> [s1 EXCEPT !.p.lbl = "hit.freq", !.p.want = W("map", "w")], hold |-> {}, go |-> FALSE]
              ELSE [st |-> Finish(s1, FALSE, v), hold |-> {}, go |-> TRUE]
    [] p.lbl = "exp.order" ->
         [st |-> [st EXCEPT !.p.lbl = "exp.map", !.p.want = W("map", "w")], hold |-> {"order"}, go |-> FALSE]
    [] p.lbl = "exp.map" ->
         [st |-> [Body([st EXCEPT !.c = [RemoveKey(cfg, cc, k) EXCEPT !.missS = @ + 1]]) EXCEPT !.p.lbl = "ins.req"],
          hold |-> {}, go |-> TRUE]
    [] p.lbl = "hit.order" ->
         LET o2 == IF FirstIdx(cc.order, k, 1) = 0 THEN cc.order ELSE Append(DelFirst(cc.order, k), k)
             s1 == [st EXCEPT !.c.order = o2] IN
         IF FrequencyPolicy(cfg.policy)
         THEN [st |-> [s1 EXCEPT !.p.lbl = "hit.freq", !.p.want = W("map", "w")], hold |-> {}, go |-> FALSE]
         ELSE [st |-> Finish(s1, FALSE, p.hitv), hold |-> {}, go |-> TRUE]
    [] p.lbl = "hit.freq" ->
         LET c1 == IF k \in Dom(cc) THEN [cc EXCEPT !.store[k].hits = @ + 1] ELSE cc IN
         [st |-> Finish([st EXCEPT !.c = c1], FALSE, p.hitv), hold |-> {}, go |-> TRUE]
    [] p.lbl = "ins.put" ->
         [st |-> [st EXCEPT !.c.store = (k :> Entry(p.v, OpSize(ops[p.i]))) @@ @, !.p.lbl = "ins.order", !.p.want = W("order", "x")],
          hold |-> {}, go |-> FALSE]
    \* ---------------- sync insert_with_memory: put; then everything else nested inside the queue lock:
    \* size of the new value (map:r), [oversize: undo (map:w)], loop { total (map:r), evict one (map:w) },
    \* entry-limit step (map:w)
    [] p.lbl = "mins.put" ->
         [st |-> [st EXCEPT !.c.store = (k :> Entry(p.v, OpSize(ops[p.i]))) @@ @, !.p.lbl = "mins.order", !.p.want = W("order", "x")],
          hold |-> {}, go |-> FALSE]
    [] p.lbl = "mins.order" ->
         [st |-> [st EXCEPT !.c.order = Append(DelFirst(@, k), k), !.p.lbl = "mins.size", !.p.want = W("map", "r")],
          hold |-> {"order"}, go |-> FALSE]
    [] p.lbl = "mins.size" ->
         LET sz == IF k \in Dom(cc) THEN cc.store[k].size ELSE 0 IN
         IF sz > cfg.maxmem
         THEN [st |-> [st EXCEPT !.p.lbl = "mins.over", !.p.want = W("map", "w")], hold |-> {"order"}, go |-> FALSE]
         ELSE [st |-> [st EXCEPT !.p.lbl = "mins.sum", !.p.want = W("map", "r")], hold |-> {"order"}, go |-> FALSE]
    [] p.lbl = "mins.over" ->
         [st |-> Finish([st EXCEPT !.c.store = Without(@, {k}),
                                   !.c.order = SubSeq(@, 1, Len(@) - 1)], TRUE, p.v), hold |-> {}, go |-> TRUE]
    [] p.lbl = "mins.sum" ->
         IF TotalSize(cc) <= cfg.maxmem \/ ~CanEvict(cfg, cc)
         THEN IF cfg.limit # 0 /\ Len(cc.order) > cfg.limit
              THEN [st |-> [st EXCEPT !.p.lbl = "ins.evict", !.p.want = W("map", "w")], hold |-> {"order"}, go |-> FALSE]
              ELSE [st |-> Finish(st, TRUE, p.v), hold |-> {}, go |-> TRUE]
         ELSE [st |-> [st EXCEPT !.p.lbl = "mins.evict", !.p.want = W("map", "w")], hold |-> {"order"}, go |-> FALSE]
    [] p.lbl = "mins.evict" ->
         [st |-> [st EXCEPT !.c = FirstEvict(cfg, cc), !.p.lbl = "mins.sum", !.p.want = W("map", "r")],
          hold |-> {"order"}, go |-> FALSE]
    [] p.lbl = "ins.order" ->
         LET c1 == [cc EXCEPT !.order = Append(DelFirst(@, k), k)] IN
         IF cfg.limit # 0 /\ Len(c1.order) > cfg.limit
         THEN [st |-> [st EXCEPT !.c = c1, !.p.lbl = "ins.evict", !.p.want = W("map", "w")], hold |-> {"order"}, go |-> FALSE]
         ELSE [st |-> Finish([st EXCEPT !.c = c1], TRUE, p.v), hold |-> {}, go |-> TRUE]
    [] p.lbl = "ins.evict" ->
         \* deterministic policies only (fifo / lru / lfu: first minimal position)
         [st |-> Finish([st EXCEPT !.c = FirstEvict(cfg, cc)], TRUE, p.v), hold |-> {}, go |-> TRUE]
    \* ---------------- async call
    [] p.lbl = "a.exp" ->
         LET still == k \in Dom(cc) /\ Expired(cfg, cc.store[k])
             c1 == IF still THEN RemoveKey(cfg, cc, k) ELSE cc IN
         [st |-> [Body([st EXCEPT !.c = [c1 EXCEPT !.missS = @ + 1]]) EXCEPT !.p.lbl = "a.ins.req"], hold |-> {}, go |-> TRUE]
    [] p.lbl = "a.exp.asfound" ->
         [st |-> [Body([st EXCEPT !.c = [cc EXCEPT !.order = DelAll(@, k), !.missS = @ + 1]]) EXCEPT !.p.lbl = "a.ins.req"],
          hold |-> {}, go |-> TRUE]
    [] p.lbl = "a.hit" ->
         LET c1 == IF k \in Dom(cc) THEN [cc EXCEPT !.order = Append(DelAll(@, k), k)] ELSE cc IN
         [st |-> Finish([st EXCEPT !.c = c1], FALSE, p.hitv), hold |-> {}, go |-> TRUE]
    [] p.lbl = "a.ins" ->
         \* the whole async insert inside the queue lock; ties resolved as the scan does (first minimal)
         LET sz == OpSize(ops[p.i])
             c1 == AsyncDropOld(cfg, cc, k) IN
         IF cfg.maxmem # 0 /\ sz > cfg.maxmem
         THEN [st |-> Finish([st EXCEPT !.c = c1], TRUE, p.v), hold |-> {}, go |-> TRUE]
         ELSE LET cm == IF cfg.maxmem # 0 THEN AsyncMemLoop(cfg, c1, sz) ELSE c1
                  c2 == IF LimitExceeded(cfg, cm) THEN FirstEvict(cfg, cm) ELSE cm IN
              [st |-> Finish([st EXCEPT !.c = PushPut(c2, k, p.v, sz)], TRUE, p.v), hold |-> {}, go |-> TRUE]
    \* ---------------- invalidate_with(sel)
    [] p.lbl = "inv_with.aux" ->
         LET o == ops[p.i] IN
         IF Sync
         THEN IF "cond_callback_lock_inversion" \in CQuirks
              THEN [st |-> [st EXCEPT !.p.lbl = "cw.map.first", !.p.want = W("map", "w")], hold |-> {"aux"}, go |-> FALSE]
              ELSE [st |-> [st EXCEPT !.p.lbl = "cw.order", !.p.want = W("order", "x")], hold |-> {"aux"}, go |-> FALSE]
         ELSE \* async: the matching keys are collected lock-free, removed later under the queue lock
              [st |-> [st EXCEPT !.p.coll = o.sel \cap Dom(cc), !.p.lbl = "a.cw", !.p.want = W("order", "x")],
               hold |-> {"aux"}, go |-> FALSE]
    [] p.lbl = "cw.order" ->
         [st |-> [st EXCEPT !.p.lbl = "cw.map", !.p.want = W("map", "w")], hold |-> {"aux", "order"}, go |-> FALSE]
    [] p.lbl = "cw.map" ->
         LET S == ops[p.i].sel \cap Dom(cc) IN
         [st |-> Finish([st EXCEPT !.c = RemoveKeys(cc, S)], FALSE, None), hold |-> {}, go |-> TRUE]
    [] p.lbl = "cw.map.first" ->
         [st |-> [st EXCEPT !.p.lbl = "cw.order.second", !.p.want = W("order", "x")], hold |-> {"aux", "map"}, go |-> FALSE]
    [] p.lbl = "cw.order.second" ->
         LET S == ops[p.i].sel \cap Dom(cc) IN
         [st |-> Finish([st EXCEPT !.c = RemoveKeys(cc, S)], FALSE, None), hold |-> {}, go |-> TRUE]
    [] p.lbl = "a.cw" ->
         [st |-> Finish([st EXCEPT !.c = [cc EXCEPT !.store = Without(@, p.coll),
                                                   !.order = SelectSeq(@, LAMBDA x : x \notin p.coll)]], FALSE, None),
          hold |-> {}, go |-> TRUE]
    \* ---------------- clear (invalidate_cache by name)
    [] p.lbl = "clear.aux" ->
         IF "clear_not_atomic" \in CQuirks
         THEN IF Sync
              THEN [st |-> [st EXCEPT !.p.lbl = "cl.map.only", !.p.want = W("map", "w")], hold |-> {"aux"}, go |-> FALSE]
              ELSE [st |-> [st EXCEPT !.c.store = <<>>, !.p.lbl = "cl.order.only", !.p.want = W("order", "x")],
                    hold |-> {"aux"}, go |-> FALSE]
         ELSE IF Sync
              THEN [st |-> [st EXCEPT !.p.lbl = "cl.order", !.p.want = W("order", "x")], hold |-> {"aux"}, go |-> FALSE]
              ELSE [st |-> [st EXCEPT !.p.lbl = "a.cl", !.p.want = W("order", "x")], hold |-> {"aux"}, go |-> FALSE]
    [] p.lbl = "cl.order" ->
         [st |-> [st EXCEPT !.p.lbl = "cl.map", !.p.want = W("map", "w")], hold |-> {"aux", "order"}, go |-> FALSE]
    [] p.lbl = "cl.map" -> [st |-> Finish([st EXCEPT !.c = Clear(cc)], FALSE, None), hold |-> {}, go |-> TRUE]
    [] p.lbl = "a.cl" -> [st |-> Finish([st EXCEPT !.c = Clear(cc)], FALSE, None), hold |-> {}, go |-> TRUE]
    [] p.lbl = "cl.map.only" ->
         [st |-> [st EXCEPT !.c.store = <<>>, !.p.lbl = "cl.order.only", !.p.want = W("order", "x")], hold |-> {"aux"}, go |-> FALSE]
    [] p.lbl = "cl.order.only" ->
         [st |-> Finish([st EXCEPT !.c.order = <<>>], FALSE, None), hold |-> {}, go |-> TRUE]
    \* ---------------- statistics query: registry read lock only
    [] p.lbl = "aux.aux" -> [st |-> Finish(st, FALSE, None), hold |-> {}, go |-> TRUE]
    \* stats_registry::reset: counters zeroed while the registry read lock is held
    [] p.lbl = "sreset.aux" ->
         [st |-> Finish([st EXCEPT !.c.hitsS = 0, !.c.missS = 0], FALSE, None), hold |-> {}, go |-> TRUE]

-----------------------------------------------------------------------------
Grantable(t, w) ==
  CASE w.lock = "map" -> mapL = 0
    [] w.lock = "order"               -> orderL = 0
    [] OTHER -> TRUE     \* aux:r (never write-locked after warm-up), start

\* all locks a thread holds are released when `hold` no longer contains them
Step(t) ==
  /\ ~pc[t].done
  /\ Grantable(t, pc[t].want)
  /\ LET ops == prog[t]
         st0 == [c |-> c, ver |-> ver, p |-> pc[t], out |-> res[t]]
         g == Granted(ops, st0)
         st1 == IF g.go THEN RunFrom(ops, g.st) ELSE g.st
         \* a read lock is released at the end of its own segment
         holds == g.hold
     IN /\ c' = st1.c
        /\ ver' = st1.ver
        /\ pc' = [pc EXCEPT ![t] = st1.p]
        /\ res' = [res EXCEPT ![t] = st1.out]
        /\ mapL' = IF "map" \in holds THEN t ELSE IF mapL = t THEN 0 ELSE mapL
        /\ orderL' = IF "order" \in holds THEN t ELSE IF orderL = t THEN 0 ELSE orderL
  /\ UNCHANGED <<cfg, prog, c0>>

AllDone == \A t \in Threads : pc[t].done

\* a deadlock of the real protocol: somebody is unfinished and nobody can be granted
Deadlocked == ~AllDone /\ \A t \in Threads : pc[t].done \/ ~Grantable(t, pc[t].want)

-----------------------------------------------------------------------------
(* properties *)

NoDeadlock == ~Deadlocked

QuiescentConsistent == AllDone => Dom(c) \subseteq SeqRange(c.order) /\ WithinLimits(cfg, c)

\* every call returned a value produced by an execution for its own key (values are unique)
ProducedFor(k) ==
  UNION { {res[t][i].ret : i \in {j \in DOMAIN res[t] : prog[t][j].op \in {"call", "callx"} /\ prog[t][j].k = k /\ res[t][j].exec}}
          : t \in Threads }
InitialVals(k) == IF k \in Dom(c0) THEN {c0.store[k].val} ELSE {}
ValuesCorrect ==
  AllDone => \A t \in Threads : \A i \in DOMAIN res[t] :
     prog[t][i].op \in {"call", "callx"} => res[t][i].ret \in ProducedFor(prog[t][i].k) \cup InitialVals(prog[t][i].k)
=============================================================================
