-------------------------------- MODULE Edges --------------------------------
(***************************************************************************)
(* Edge conformance: every line is one transition (pre, event, post) of    *)
(* the REAL engine, found by the harness' exhaustive bounded exploration   *)
(* of the implementation's own state graph.  TLC checks each against the   *)
(* specification's action relation ("DRIFT") and against the monitors      *)
(* that need no history ("FAIL").  Line 1 lists the configurations.        *)
(***************************************************************************)
EXTENDS Monitors, Json, IOUtils

Rec == ndJsonDeserialize(IOEnv.TRACE)

VARIABLE l
evars == <<l>>

ToEvent(r) == [op |-> r.ev, k |-> r.k, v |-> r.v, size |-> r.size, mem |-> r.mem,
               ret |-> r.ret, d |-> r.d, panic |-> r.panic]

Check(ok, kind, id, line) == IF ok THEN TRUE ELSE PrintT(<<kind, id, line>>)

SpecStep(cfg, pre, e, post) ==
  CASE e.op = "get"  -> LET r == Get(cfg, pre, e.k) IN ~e.panic /\ post = r.c /\ e.ret = r.ret
    [] e.op = "ins"  -> [c |-> post, panic |-> e.panic] \in Insert(cfg, pre, e.k, e.v, e.size, e.mem)
    [] e.op = "tick" -> post = Tick(pre, e.d)
    [] OTHER -> FALSE

\* monitors that are functions of (pre, event, post) alone
HistoryFreeIds == {"C04", "C05", "C06", "C16"}

G0x == G0

Init == l = 1

Next ==
  /\ l < Len(Rec)
  /\ LET r == Rec[l + 1]
         cfg == Rec[1].cfgs[r.c]
         e == ToEvent(r.e)
     IN /\ Check(SpecStep(cfg, r.pre, e, r.post), "DRIFT", "engine", l + 1)
        /\ \A id \in HistoryFreeIds : Check(Monitor(id, cfg, r.pre, e, r.post, G0), "FAIL", id, l + 1)
  /\ l' = l + 1

EdgeSpec == Init /\ [][Next]_evars

Done == IF l < Len(Rec) THEN TRUE ELSE PrintT(<<"DONE", "edges", l>>)
=============================================================================
