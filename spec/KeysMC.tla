------------------------------- MODULE KeysMC -------------------------------
(* Bounded injectivity of the cache key for a family of signatures (C02).  *)
EXTENDS Keys

CONSTANTS AlphabetId,  \* which adversarial alphabet of one-character tokens to use
          MaxLen2,     \* string length bound for 1- and 2-string signatures
          MaxLen3,     \* string length bound for the 3-string signature
          IntLoNeg, IntHi,
          Variant      \* "key" (as specified) | "nosep" | "display" (mutants for the self-test)

VARIABLE sig

\* separator, both quotes, backslash, comma, space, newline: everything the rendering treats specially
Alphabet ==
  CASE AlphabetId = "adv5" -> {"a", "|", "\"", "\\", "'"}
    [] AlphabetId = "adv7" -> {"a", "|", "\"", "\\", "'", " ", ","}
    [] AlphabetId = "adv9" -> {"a", "|", "\"", "\\", "'", " ", ",", "\n", "b"}

Strs(n) == UNION {[1..m -> Alphabet] : m \in 0..n}

I(v) == [t |-> "int", v |-> v]
B(v) == [t |-> "bool", v |-> v]
C(c) == [t |-> "char", c |-> c]
S(cs) == [t |-> "str", cs |-> cs]
Unit == [t |-> "tup", xs |-> <<>>]
Opt(b, v) == [t |-> "opt", some |-> b, v |-> IF b THEN v ELSE Unit]
V(xs) == [t |-> "vec", xs |-> xs]
T(xs) == [t |-> "tup", xs |-> xs]
Pt(x, tag) == [t |-> "struct", name |-> "Pt", fields |-> <<[n |-> "x", v |-> I(x)], [n |-> "tag", v |-> S(tag)]>>]
W(s) == [t |-> "tstruct", name |-> "W", xs |-> <<S(s)>>]
En(n) == [t |-> "struct", name |-> n, fields |-> <<>>]      \* unit-like enum variant: Debug = its name

Ints == (0 - IntLoNeg)..IntHi
SmallInts == {-1, 0, 1, 12}
IntSeqs == UNION {[1..m -> SmallInts] : m \in 0..2}
S1 == Strs(1)
S2 == Strs(MaxLen2)
S3 == Strs(MaxLen3)

Dom(s) ==
  CASE s = "i_i"   -> {<<I(a), I(b)>> : a \in Ints, b \in Ints}
    [] s = "s"     -> {<<S(a)>> : a \in Strs(MaxLen2 + 1)}
    [] s = "s_s"   -> {<<S(a), S(b)>> : a \in S2, b \in S2}
    [] s = "s_s_s" -> {<<S(a), S(b), S(c)>> : a \in S3, b \in S3, c \in S3}
    [] s = "rs_c"  -> {<<S(a), C(c)>> : a \in S2, c \in Alphabet}
    [] s = "b_oi"  -> {<<B(b), Opt(o, I(i))>> : b \in BOOLEAN, o \in BOOLEAN, i \in SmallInts}
    [] s = "vi_vi" -> {<<V([i \in DOMAIN a |-> I(a[i])]), V([i \in DOMAIN b |-> I(b[i])])>> : a \in IntSeqs, b \in IntSeqs}
    [] s = "vs"    -> {<<V([i \in DOMAIN a |-> S(a[i])])>> : a \in UNION {[1..m -> S1] : m \in 0..3}}
    [] s = "t_i"   -> {<<T(<<I(a), S(b)>>), I(c)>> : a \in SmallInts, b \in S2, c \in SmallInts}
    [] s = "os_s"  -> {<<Opt(o, S(a)), S(b)>> : o \in BOOLEAN, a \in S2, b \in S2}
    [] s = "sl"    -> {<<V([i \in DOMAIN a |-> I(a[i])])>> : a \in UNION {[1..m -> SmallInts] : m \in 0..3}}
    [] s = "m_pt"  -> {<<Pt(x, tag), I(a)>> : x \in SmallInts, tag \in S2, a \in SmallInts}
    [] s = "m_w"   -> {<<W(a), S(b)>> : a \in S2, b \in S2}
    [] s = "m_en_en" -> {<<En(a), En(b)>> : a \in {"A", "AB", "ABC"}, b \in {"B", "BC", "C", "CB"}}
    [] s = "m_u_u_u" -> {<<I(a), I(b), I(c)>> : a \in {1, 7, 71, 11, 112}, b \in {1, 11, 12, 2}, c \in {1, 2, 12}}
    [] s = "five"  -> {<<I(a), I(b), S(c), C(d), B(e)>> : a \in {0, 7, 77}, b \in {-7, 7}, c \in S2, d \in Alphabet, e \in BOOLEAN}

SigNames == {"i_i", "s", "s_s", "s_s_s", "rs_c", "b_oi", "vi_vi", "vs", "t_i", "os_s", "sl", "m_pt", "m_w", "m_en_en", "m_u_u_u", "five"}

K(parts) == CASE Variant = "key" -> Key(parts)
              [] Variant = "nosep" -> KeyNoSep(parts)
              [] Variant = "display" -> KeyDisplay(parts)

Init == sig \in SigNames
Next == UNCHANGED sig
Spec == Init /\ [][Next]_sig

KeyInjective ==
  LET D == Dom(sig) IN
  /\ PrintT(<<"SIG", sig, Cardinality(D)>>)
  /\ Injective(K, D)
=============================================================================
