------------------------------ MODULE TLBorrow ------------------------------
(***************************************************************************)
(* RefCell discipline of the thread-local engine (design level, C16).      *)
(* ThreadLocalCache keeps its map and its queue in two RefCells.  A        *)
(* borrow_mut while any borrow of the same cell is outstanding panics      *)
(* ("already borrowed").  The operations are modelled as sequences of      *)
(* borrow / release steps exactly as nested in the code:                   *)
(*   insert : bm(map) rel(map); bm(order) [ evict ] rel(order)             *)
(*   evict (LFU/ARC/TLRU) : b(map) scan rel(map); REMOVE                   *)
(*   REMOVE as found  (remove_key)            : bm(map) bm(order) ..       *)
(*   REMOVE repaired  (remove_key_with_order) : bm(map) .. (uses the       *)
(*                                              queue already borrowed)    *)
(*   get    : b(map) rel(map); [expired: bm(map) bm(order) rel rel];       *)
(*            [hit: bm(order) rel(order); bm(map) rel(map)]                *)
(* TLC shows Panic unreachable for the repaired nesting and reachable for  *)
(* the as-found one (AsFound = TRUE).                                      *)
(***************************************************************************)
EXTENDS Naturals, Sequences, TLC

CONSTANT AsFound

\* a program is a sequence of steps <<kind, cell>>, kind in {"b", "bm", "rel", "relm"}
Insert(evicts) ==
  <<<<"bm", "map">>, <<"relm", "map">>, <<"bm", "order">>>>
  \o (IF evicts
      THEN <<<<"b", "map">>, <<"rel", "map">>, <<"bm", "map">>>>
           \o (IF AsFound THEN <<<<"bm", "order">>, <<"relm", "order">>>> ELSE <<>>)
           \o <<<<"relm", "map">>>>
      ELSE <<>>)
  \o <<<<"relm", "order">>>>

Get(kind) ==
  <<<<"b", "map">>, <<"rel", "map">>>>
  \o (CASE kind = "expired" -> <<<<"bm", "map">>, <<"bm", "order">>, <<"relm", "order">>, <<"relm", "map">>>>
        [] kind = "hit" -> <<<<"bm", "order">>, <<"relm", "order">>, <<"bm", "map">>, <<"relm", "map">>>>
        [] OTHER -> <<>>)

Programs == {Insert(TRUE), Insert(FALSE), Get("miss"), Get("expired"), Get("hit")}

VARIABLES prog, i, readers, writer, panic
vars == <<prog, i, readers, writer, panic>>

Cells == {"map", "order"}

Init == /\ prog \in Programs /\ i = 1
        /\ readers = [c \in Cells |-> 0] /\ writer = [c \in Cells |-> FALSE]
        /\ panic = FALSE

Step ==
  /\ ~panic /\ i <= Len(prog)
  /\ LET k == prog[i][1]
         c == prog[i][2] IN
     CASE k = "b"    -> IF writer[c] THEN panic' = TRUE /\ UNCHANGED <<readers, writer>>
                        ELSE readers' = [readers EXCEPT ![c] = @ + 1] /\ UNCHANGED <<writer, panic>>
       [] k = "bm"   -> IF writer[c] \/ readers[c] > 0 THEN panic' = TRUE /\ UNCHANGED <<readers, writer>>
                        ELSE writer' = [writer EXCEPT ![c] = TRUE] /\ UNCHANGED <<readers, panic>>
       [] k = "rel"  -> readers' = [readers EXCEPT ![c] = @ - 1] /\ UNCHANGED <<writer, panic>>
       [] k = "relm" -> writer' = [writer EXCEPT ![c] = FALSE] /\ UNCHANGED <<readers, panic>>
  /\ i' = i + 1 /\ UNCHANGED prog

Spec == Init /\ [][Step]_vars

NoPanic == ~panic
AllReleased == (i > Len(prog) /\ ~panic) => \A c \in Cells : readers[c] = 0 /\ ~writer[c]
=============================================================================
