--------------------------------- MODULE Reg ---------------------------------
(***************************************************************************)
(* Lock protocol of the process-wide registries (cachelito-core             *)
(* invalidation.rs, stats_registry.rs) and of the code that the macros      *)
(* generate around them, under parking_lot's RwLock semantics:              *)
(*                                                                         *)
(*   * a writer that finds the lock held becomes PENDING;                   *)
(*   * a new read() is refused while a writer holds the lock OR is pending  *)
(*     (writer preference) -- also if the caller already holds a read lock  *)
(*     (a recursive read() queues behind the pending writer: deadlock);     *)
(*   * a Mutex / a write lock is granted only when nobody holds the lock.   *)
(*                                                                         *)
(* One step = one lock acquisition attempt of one thread, followed by       *)
(* everything the thread does until its next acquisition (the grain of the  *)
(* cooperative scheduler of the harness).                                   *)
(*                                                                         *)
(* Registry locks (roles, the names the harness logs):                      *)
(*   reg.tag  reg.event  reg.dep  reg.meta  reg.clr (clear callbacks)       *)
(*   reg.chk (conditional callbacks)  reg.stats                             *)
(* Cache locks: ("order:" \o c) (Mutex) and ("map:" \o c) (RwLock / DashMap as  *)
(* one lock), only as far as callbacks and calls nest them.                 *)
(*                                                                         *)
(* Operations (programs are sequences of them):                             *)
(*   first(c)   the first call of cached function c: its `Once` blocks       *)
(*              register the statistics, the metadata (tag, event, dep,      *)
(*              meta: four separate write sections) and the clear callback   *)
(*              (both only if the function declares any), the conditional    *)
(*              callback, then the call proper                               *)
(*   call(c)    a later call                                                *)
(*   tag / event / dep   group invalidation: read the name set (own          *)
(*              section), then hold reg.clr for reading while running the    *)
(*              clear callback of every registered member                    *)
(*   name(c)    invalidate_cache: reg.clr read-held around the callback      *)
(*   with(c)    invalidate_with: reg.chk read-held around the callback       *)
(*   allwith    invalidate_all_with: reg.chk read-held around ALL callbacks  *)
(*   stats(c)   stats_registry::get / reset: reg.stats read section          *)
(*                                                                         *)
(* RQuirks (seeded protocols, for refutation):                              *)
(*   "allwith_recursive_read"  invalidate_all_with calls invalidate_with    *)
(*                             (a second read() of reg.chk) per cache       *)
(***************************************************************************)
EXTENDS Naturals, Sequences, FiniteSets, TLC

CONSTANTS Caches,        \* cache names
          NThreads,
          MaxOps,
          Cold,          \* caches whose first call has not happened yet (subset of Caches)
          MetaCaches,    \* caches whose function declares tags / events / dependencies
          RQuirks

Threads == 1..NThreads
RegLocks == {"reg.tag", "reg.event", "reg.dep", "reg.meta", "reg.clr", "reg.chk", "reg.stats"}
CacheLocks == {("order:" \o c) : c \in Caches} \cup {("map:" \o c) : c \in Caches}
Locks == RegLocks \cup CacheLocks

VARIABLES prog,     \* thread -> remaining operations
          todo,     \* thread -> remaining instructions of the current operation
          rd,       \* lock -> sequence of reader threads (with repetitions)
          wr,       \* lock -> writer / mutex holder (0 = none)
          pend,     \* lock -> set of threads pending for writing
          regd,     \* registry role -> set of registered caches
          started   \* caches whose first call has begun (a cold cache is first-called by one thread only)
rvars == <<prog, todo, rd, wr, pend, regd, started>>

-----------------------------------------------------------------------------
(* instructions                                                             *)
Acq(l, m)      == [i |-> "acq", l |-> l, m |-> m]
Rel(l, m)      == [i |-> "rel", l |-> l, m |-> m]
Reg(role, c)   == [i |-> "reg", role |-> role, c |-> c]
\* after acquiring: expand to the callbacks of the members registered in `role` (intersected with S)
Each(role, S, kind) == [i |-> "each", role |-> role, S |-> S, kind |-> kind]

Section(l, m, body) == <<Acq(l, m)>> \o body \o <<Rel(l, m)>>

\* a clear / conditional callback of cache c (after the repairs D5, D6): queue lock, then store lock
Callback(c) == <<Acq(("order:" \o c), "x"), Acq(("map:" \o c), "w"), Rel(("map:" \o c), "w"), Rel(("order:" \o c), "x")>>

\* the cache part of a call, as far as nesting goes (details: Conc.tla)
CallBody(c) == <<Acq(("map:" \o c), "r"), Rel(("map:" \o c), "r"),
                 Acq(("map:" \o c), "w"), Rel(("map:" \o c), "w"),
                 Acq(("order:" \o c), "x"), Acq(("map:" \o c), "w"), Rel(("map:" \o c), "w"), Rel(("order:" \o c), "x")>>

\* the `Once` blocks in the order the macros emit them: statistics; metadata (four separate write sections)
\* and clear callback -- only for a function that declares tags, events or dependencies; conditional callback
Registration(c) ==
     Section("reg.stats", "w", <<Reg("reg.stats", c)>>)
  \o (IF c \in MetaCaches
      THEN    Section("reg.tag", "w", <<Reg("reg.tag", c)>>)
           \o Section("reg.event", "w", <<Reg("reg.event", c)>>)
           \o Section("reg.dep", "w", <<Reg("reg.dep", c)>>)
           \o Section("reg.meta", "w", <<>>)
           \o Section("reg.clr", "w", <<Reg("reg.clr", c)>>)
      ELSE <<>>)
  \o Section("reg.chk", "w", <<Reg("reg.chk", c)>>)

Instrs(op) ==
  CASE op.op = "first" -> Registration(op.c) \o CallBody(op.c)
    [] op.op = "call"  -> CallBody(op.c)
    [] op.op \in {"tag", "event", "dep"} ->
         \* the name set is read in its own section (and cloned); the callbacks run under reg.clr
         Section("reg." \o op.op, "r", <<>>) \o <<Acq("reg.clr", "r"), Each("reg." \o op.op, Caches, "clear"), Rel("reg.clr", "r")>>
    [] op.op = "name"  -> <<Acq("reg.clr", "r"), Each("reg.clr", {op.c}, "clear"), Rel("reg.clr", "r")>>
    [] op.op = "with"  -> <<Acq("reg.chk", "r"), Each("reg.chk", {op.c}, "check"), Rel("reg.chk", "r")>>
    [] op.op = "allwith" -> <<Acq("reg.chk", "r"), Each("reg.chk", Caches, "check"), Rel("reg.chk", "r")>>
    [] op.op = "stats" -> Section("reg.stats", "r", <<>>)

\* what an `each` instruction expands to once its lock has been acquired
SetAsSeq(S) == CHOOSE s \in [1..Cardinality(S) -> S] : \A x \in S : \E i \in DOMAIN s : s[i] = x
RECURSIVE Flatten(_)
Flatten(ss) == IF ss = <<>> THEN <<>> ELSE Head(ss) \o Flatten(Tail(ss))
Expand(e) ==
  LET members == SetAsSeq({c \in e.S : c \in regd[e.role] /\ c \in regd[IF e.kind = "clear" THEN "reg.clr" ELSE "reg.chk"]})
      one(c) == IF e.kind = "check" /\ "allwith_recursive_read" \in RQuirks /\ e.S = Caches
                THEN Section("reg.chk", "r", Callback(c))       \* invalidate_all_with -> invalidate_with
                ELSE Callback(c)
  IN Flatten([i \in DOMAIN members |-> one(members[i])])

-----------------------------------------------------------------------------
(* lock semantics                                                           *)
Free(l) == wr[l] = 0 /\ rd[l] = <<>>

CanAcq(t, l, m) ==
  CASE m = "r" -> wr[l] = 0 /\ pend[l] \ {t} = {}          \* writer preference, also for recursive reads
    [] m \in {"w", "x"} -> Free(l)

\* run the non-acquiring instructions at the head of `seq` (thread t), returning the new state pieces
RECURSIVE Run(_, _, _, _, _)
Run(t, seq, rd0, wr0, regd0) ==
  IF seq = <<>> \/ Head(seq).i = "acq" THEN [seq |-> seq, rd |-> rd0, wr |-> wr0, regd |-> regd0]
  ELSE LET h == Head(seq) IN
       CASE h.i = "rel" ->
              IF h.m = "r"
              THEN LET p == CHOOSE p \in DOMAIN rd0[h.l] : rd0[h.l][p] = t
                   IN Run(t, Tail(seq), [rd0 EXCEPT ![h.l] = SubSeq(@, 1, p - 1) \o SubSeq(@, p + 1, Len(@))], wr0, regd0)
              ELSE Run(t, Tail(seq), rd0, [wr0 EXCEPT ![h.l] = 0], regd0)
         [] h.i = "reg" -> Run(t, Tail(seq), rd0, wr0, [regd0 EXCEPT ![h.role] = @ \cup {h.c}])
         [] h.i = "each" -> Run(t, Expand(h) \o Tail(seq), rd0, wr0, regd0)

\* thread t begins its next operation
Begin(t) ==
  /\ todo[t] = <<>> /\ prog[t] # <<>>
  /\ LET op == Head(prog[t]) IN
     /\ op.op = "first" => op.c \notin started
     /\ started' = IF op.op = "first" THEN started \cup {op.c} ELSE started
     /\ todo' = [todo EXCEPT ![t] = Instrs(op)]
  /\ prog' = [prog EXCEPT ![t] = Tail(@)]
  /\ UNCHANGED <<rd, wr, pend, regd>>

\* thread t attempts its next acquisition and succeeds
Acquire(t) ==
  /\ todo[t] # <<>>
  /\ LET a == Head(todo[t]) IN
     /\ a.i = "acq" /\ CanAcq(t, a.l, a.m)
     /\ LET rd1 == IF a.m = "r" THEN [rd EXCEPT ![a.l] = Append(@, t)] ELSE rd
            wr1 == IF a.m = "r" THEN wr ELSE [wr EXCEPT ![a.l] = t]
            r == Run(t, Tail(todo[t]), rd1, wr1, regd)
        IN /\ todo' = [todo EXCEPT ![t] = r.seq]
           /\ rd' = r.rd /\ wr' = r.wr /\ regd' = r.regd
           /\ pend' = [pend EXCEPT ![a.l] = @ \ {t}]
  /\ UNCHANGED <<prog, started>>

\* thread t attempts to write a held RwLock: it becomes pending (only registry locks are RwLocks whose
\* writers matter; cache store locks behave the same way)
BecomePending(t) ==
  /\ todo[t] # <<>>
  /\ LET a == Head(todo[t]) IN
     /\ a.i = "acq" /\ a.m = "w" /\ ~Free(a.l) /\ t \notin pend[a.l]
     /\ pend' = [pend EXCEPT ![a.l] = @ \cup {t}]
  /\ UNCHANGED <<prog, todo, rd, wr, regd, started>>

Step(t) == Begin(t) \/ Acquire(t) \/ BecomePending(t)

Done(t) == todo[t] = <<>> /\ prog[t] = <<>>
AllDone == \A t \in Threads : Done(t)

\* a thread whose next operation can never begin (a "call" of a function nobody first-calls) is not a deadlock
\* of the protocol: programs are generated so that this cannot happen (see RegMC)
NoDeadlock == AllDone \/ \E t \in Threads : ENABLED Step(t)

\* nothing is held when everybody has finished, and every first-called cache is registered everywhere
QuiescentClean ==
  AllDone => /\ \A l \in Locks : Free(l) /\ pend[l] = {}
             /\ \A c \in started : /\ c \in regd["reg.chk"] /\ c \in regd["reg.stats"]
                                   /\ c \in MetaCaches => \A role \in {"reg.tag", "reg.event", "reg.dep", "reg.clr"} : c \in regd[role]

\* a registry lock is never acquired while another registry lock is held by the same thread, except the
\* callbacks' cache locks under reg.clr / reg.chk (a flat protocol cannot produce lock-order cycles among
\* registry locks)
HoldsReg(t) == {l \in RegLocks : wr[l] = t \/ \E i \in DOMAIN rd[l] : rd[l][i] = t}
FlatRegistry ==
  \A t \in Threads : todo[t] # <<>> /\ Head(todo[t]).i = "acq" /\ Head(todo[t]).l \in RegLocks
                     => HoldsReg(t) = {} \/ RQuirks # {}
=============================================================================
