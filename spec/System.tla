------------------------------- MODULE System -------------------------------
(***************************************************************************)
(* Sequential system specification: a set of decorated functions           *)
(* (#[cache] global / thread scope, #[cache_async]), each with its own     *)
(* cache (thread scope: one per thread), the invalidation registry and the *)
(* statistics registry.  A call is two steps, exactly like the sub-events  *)
(* the harness logs: CallGet (the wrapper's lookup, the invalidate_on      *)
(* consultation, the decision to run the body) and CallFin (body result,   *)
(* cache_if consultation, conditional store).  Every step produces the     *)
(* same record the harness would log (`last`), and TLC proves that no      *)
(* monitor fails on any record of any behaviour (NoMonitorFails) - the     *)
(* very operator RecordFails that the trace specification evaluates on     *)
(* recorded implementation steps.                                          *)
(* The layout (which caches exist, their cfg and wrapper attributes) is    *)
(* chosen in Init from a set, so one TLC run covers many layouts.          *)
(***************************************************************************)
EXTENDS SysMonitors

CONSTANTS Keys, MaxVer, MaxHits, SizesMem

VARIABLES cfgs, metas,   \* layout: cache key -> cfg / wrapper attributes   (constant after Init)
          cs,            \* cache key -> cache state
          ver,           \* next body result
          pending,       \* the executed call waiting for its CallFin, or NoPending
          susp,          \* async calls suspended at an await inside their body: set of [n, k]
          gs, xs, usedK, pm,   \* ghosts, as in the trace specification
          last           \* record of the last step

svars == <<cfgs, metas, cs, ver, pending, susp, gs, xs, usedK, pm, last>>

NoPending == [n |-> "", k |-> ""]

Rec0 == [ev |-> "init", n |-> "", t |-> "", k |-> "", v |-> 0, size |-> 0, mem |-> FALSE, ret |-> None,
         d |-> 0, panic |-> FALSE, exec |-> FALSE, inv |-> -1, invn |-> 0, invkey |-> "", invval |-> -1,
         cret |-> -1, cok |-> TRUE, ok |-> TRUE, cif |-> -1, cifn |-> 0, cifkey |-> "", cifval |-> -1,
         cifok |-> TRUE, task |-> "", x |-> "", count |-> 0, found |-> FALSE, sel |-> <<>>, hits |-> 0, misses |-> 0]

\* Layouts is defined by the model-checking module: a set of [cfgs, metas] records
InitWith(Layouts) ==
  /\ \E L \in Layouts : cfgs = L.cfgs /\ metas = L.metas
  /\ cs = [n \in DOMAIN cfgs |-> EmptyCache]
  /\ ver = 0
  /\ pending = NoPending
  /\ susp = {}
  /\ gs = [n \in DOMAIN cfgs |-> G0]
  /\ xs = [n \in DOMAIN cfgs |-> X0]
  /\ usedK = {}
  /\ pm = <<>>
  /\ last = Rec0

Idle == pending = NoPending

\* bookkeeping shared by every step: r is the record of the step, cs2 the state after it
Book(r, cs2) ==
  /\ cs' = cs2
  /\ last' = r
  /\ gs' = GsNext(r, metas, gs, cs2)
  /\ xs' = XsNext(r, cfgs, metas, gs, xs, usedK, cs)
  /\ usedK' = UsedNext(r, metas, usedK)
  /\ pm' = PmNext(r, metas, pm)
  /\ UNCHANGED <<cfgs, metas>>

-----------------------------------------------------------------------------
CallGet(n, k, verdict) ==
  /\ Idle
  /\ LET cfg == cfgs[n]
         meta == metas[n]
         pre == cs[n]
         g == Get(cfg, pre, k)
         present == k \in Dom(pre) /\ ~Expired(cfg, pre.store[k])
         consulted == meta.hasInv /\ present
         inv == IF consulted THEN verdict ELSE -1
         exec == ~present \/ inv = 1
         \* the statistics of thread-scoped caches are not observable
         post == IF meta.stats THEN g.c ELSE NoStats(g.c)
         r == [Rec0 EXCEPT !.ev = "get", !.n = n, !.k = k, !.ret = g.ret, !.exec = exec,
                           !.inv = inv, !.invn = IF consulted THEN 1 ELSE 0,
                           !.invkey = IF consulted THEN k ELSE "",
                           !.invval = IF consulted THEN pre.store[k].val ELSE -1,
                           !.cret = IF exec THEN -1 ELSE g.ret]
     IN /\ (~consulted => verdict = 0)      \* the verdict is an input only when consulted
        /\ Book(r, [cs EXCEPT ![n] = post])
        /\ pending' = IF exec THEN [n |-> n, k |-> k] ELSE NoPending
        /\ UNCHANGED <<ver, susp>>

\* the rest of an executed call for (n, k): body result, cache_if consultation, conditional store
FinOf(n, k, ok, cifv, size, task) ==
  /\ ver < MaxVer
  /\ LET cfg == cfgs[n]
         meta == metas[n]
         mem == cfg.maxmem # 0
         v == ver + 1
         r0 == [Rec0 EXCEPT !.ev = "fin", !.n = n, !.k = k, !.v = v, !.size = size, !.mem = mem,
                            !.ok = ok, !.cif = IF meta.hasCif THEN cifv ELSE -1,
                            !.cifn = IF meta.hasCif THEN 1 ELSE 0,
                            !.cifkey = IF meta.hasCif THEN k ELSE "",
                            !.cifval = IF meta.hasCif THEN v ELSE -1,
                            !.cifok = IF meta.hasCif THEN ok ELSE TRUE,
                            !.cret = v, !.cok = ok, !.task = task]
     IN /\ (~meta.isResult => ok)
        /\ (~meta.hasCif => cifv = 1)
        /\ (~mem => size = 1)
        /\ \E s \in (IF ShouldStore(meta, r0) THEN Insert(cfg, cs[n], k, v, size, mem)
                                               ELSE {[c |-> cs[n], panic |-> FALSE]}) :
             Book([r0 EXCEPT !.panic = s.panic], [cs EXCEPT ![n] = s.c])
        /\ ver' = v

CallFin(ok, cifv, size) ==
  /\ ~Idle
  /\ FinOf(pending.n, pending.k, ok, cifv, size, "")
  /\ pending' = NoPending
  /\ UNCHANGED susp

-----------------------------------------------------------------------------
(* async calls with await points inside the body (C20): the call is suspended after its lookup  *)
(* (holding nothing), other operations run meanwhile, and it is later resumed - its store then   *)
(* happens against the CURRENT state - or dropped, which leaves no trace.                         *)

StartSusp(n, k, verdict) ==
  /\ metas[n].kind = "async"
  /\ [n |-> n, k |-> k] \notin susp
  /\ Idle
  /\ LET cfg == cfgs[n]
         meta == metas[n]
         pre == cs[n]
         g == Get(cfg, pre, k)
         present == k \in Dom(pre) /\ ~Expired(cfg, pre.store[k])
         consulted == meta.hasInv /\ present
         inv == IF consulted THEN verdict ELSE -1
         exec == ~present \/ inv = 1
         r == [Rec0 EXCEPT !.ev = "get", !.n = n, !.k = k, !.ret = g.ret, !.exec = exec,
                           !.inv = inv, !.invn = IF consulted THEN 1 ELSE 0,
                           !.invkey = IF consulted THEN k ELSE "",
                           !.invval = IF consulted THEN pre.store[k].val ELSE -1,
                           !.cret = IF exec THEN -1 ELSE g.ret, !.task = "susp"]
     IN /\ (~consulted => verdict = 0)
        /\ exec                       \* a hit completes at once (that is CallGet)
        /\ Book(r, [cs EXCEPT ![n] = g.c])
        /\ susp' = susp \cup {[n |-> n, k |-> k]}
        /\ UNCHANGED <<ver, pending>>

ResumeSusp(task, ok, cifv, size) ==
  /\ Idle
  /\ task \in susp
  /\ FinOf(task.n, task.k, ok, cifv, size, "resumed")
  /\ susp' = susp \ {task}
  /\ UNCHANGED pending

DropSusp(task) ==
  /\ Idle
  /\ task \in susp
  /\ Book([Rec0 EXCEPT !.ev = "drop", !.n = task.n, !.k = task.k], cs)
  /\ susp' = susp \ {task}
  /\ UNCHANGED <<ver, pending>>

TickAll ==
  /\ Idle
  /\ \E n \in DOMAIN cs : cfgs[n].ttl # 0 /\ Dom(cs[n]) # {}
  /\ \A n \in DOMAIN cs : \A k \in Dom(cs[n]) : cs[n].store[k].age <= cfgs[n].ttl
  /\ Book([Rec0 EXCEPT !.ev = "tick", !.d = 1], [n \in DOMAIN cs |-> Tick(cs[n], 1)])
  /\ UNCHANGED <<ver, pending, susp>>

-----------------------------------------------------------------------------
(* invalidation registry: only functions that have been called are registered *)

InvGroup(kind, x) ==
  /\ Idle
  /\ LET T == GroupTargets(kind, x, metas, usedK)
         r == [Rec0 EXCEPT !.ev = kind, !.x = x, !.count = GroupCount(kind, x, pm)]
     IN Book(r, [n \in DOMAIN cs |-> IF n \in T THEN Clear(cs[n]) ELSE cs[n]])
  /\ UNCHANGED <<ver, pending, susp>>

InvName(x) ==
  /\ Idle
  /\ LET T == NameTargets(x, metas, usedK)
         r == [Rec0 EXCEPT !.ev = "inv_name", !.x = x, !.found = (x \in DOMAIN pm /\ HasMeta(pm[x]))]
     IN Book(r, [n \in DOMAIN cs |-> IF n \in T THEN Clear(cs[n]) ELSE cs[n]])
  /\ UNCHANGED <<ver, pending, susp>>

SetAsSeq(S) == CHOOSE s \in [1..Cardinality(S) -> S] : \A i, j \in DOMAIN s : s[i] = s[j] => i = j

InvWith(x, S) ==
  /\ Idle
  /\ LET T == {n \in usedK : metas[n].cacheName = x}
         r == [Rec0 EXCEPT !.ev = "inv_with", !.x = x, !.sel = SetAsSeq(S), !.found = (x \in DOMAIN pm)]
     IN Book(r, [n \in DOMAIN cs |-> IF n \in T THEN RemoveKeys(cs[n], S) ELSE cs[n]])
  /\ UNCHANGED <<ver, pending, susp>>

\* sel : cacheName -> set of keys
InvAllWith(sel) ==
  /\ Idle
  /\ LET r == [Rec0 EXCEPT !.ev = "inv_all_with",
                           !.sel = [c \in DOMAIN sel |-> SetAsSeq(sel[c])],
                           !.count = Cardinality(DOMAIN pm)]
     IN Book(r, [n \in DOMAIN cs |->
                   IF n \in usedK THEN RemoveKeys(cs[n], sel[metas[n].cacheName]) ELSE cs[n]])
  /\ UNCHANGED <<ver, pending, susp>>

StatsGet(x) ==
  /\ Idle
  /\ LET T == {n \in usedK : metas[n].cacheName = x}
         r == [Rec0 EXCEPT !.ev = "stats_get", !.x = x, !.found = (x \in DOMAIN pm),
                           !.hits = IF T = {} THEN 0 ELSE cs[CHOOSE n \in T : TRUE].hitsS,
                           !.misses = IF T = {} THEN 0 ELSE cs[CHOOSE n \in T : TRUE].missS]
     IN Book(r, cs)
  /\ UNCHANGED <<ver, pending, susp>>

StatsReset(x) ==
  /\ Idle
  /\ LET T == {n \in usedK : metas[n].cacheName = x}
         r == [Rec0 EXCEPT !.ev = "stats_reset", !.x = x, !.found = (x \in DOMAIN pm)]
     IN Book(r, [n \in DOMAIN cs |-> IF n \in T THEN NoStats(cs[n]) ELSE cs[n]])
  /\ UNCHANGED <<ver, pending, susp>>

-----------------------------------------------------------------------------
(* properties *)

\* no monitor is false on any step of any behaviour
StepFails == RecordFails(last', cfgs, metas, gs, xs, usedK, pm, cs, cs')
NoMonitorFails == [][last'.panic \/ StepFails = {}]_svars

\* every cache stays consistent and within its limits (thread-scoped caches: per thread)
SysStateOK == \A n \in DOMAIN cs : Consistent(cs[n]) /\ WithinLimits(cfgs[n], cs[n])

\* the expected statistics (ghost, from events) equal the counters of every cache that has them
StatsAgree == \A n \in DOMAIN cs : metas[n].stats => cs[n].hitsS = xs[n].h /\ cs[n].missS = xs[n].m
=============================================================================
