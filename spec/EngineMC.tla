------------------------------ MODULE EngineMC ------------------------------
(***************************************************************************)
(* Bounded model of one cache driven through the core API                  *)
(* (get / insert / insert_with_memory / clock tick) for a SET of           *)
(* configurations chosen in Init.  TLC proves on every transition that     *)
(* every engine-level monitor holds, and on every state that the cache is  *)
(* consistent and within its limits.                                       *)
(***************************************************************************)
EXTENDS Monitors

CONSTANTS Keys, Flavs, Pols, Limits, Ttls, Maxmems, Weights, SizesMem, MaxVer, MaxHits

VARIABLES cfg, c, ver, g, last

vars == <<cfg, c, ver, g, last>>

Cfgs == { [flavour |-> f, policy |-> p, limit |-> l, ttl |-> t, maxmem |-> m, w |-> w] :
            f \in Flavs, p \in Pols, l \in Limits, t \in Ttls, m \in Maxmems, w \in Weights }

\* weights only matter for tlru; avoid duplicating the other policies
CfgOK(x) == (x.policy # "tlru" => x.w = "none")

Ev0 == [op |-> "init", k |-> "", v |-> 0, size |-> 0, mem |-> FALSE, ret |-> None, d |-> 0, panic |-> FALSE]

Init == /\ cfg \in {x \in Cfgs : CfgOK(x)}
        /\ c = EmptyCache
        /\ ver = 0
        /\ g = G0
        /\ last = Ev0

DoGet(k) ==
  LET r == Get(cfg, c, k)
      e == [Ev0 EXCEPT !.op = "get", !.k = k, !.ret = r.ret] IN
  /\ c' = r.c
  /\ last' = e
  /\ g' = GNext(g, e, r.c)
  /\ UNCHANGED <<cfg, ver>>

DoInsert(k, size, mem) ==
  /\ ver < MaxVer
  /\ \E r \in Insert(cfg, c, k, ver + 1, size, mem) :
       LET e == [Ev0 EXCEPT !.op = "ins", !.k = k, !.v = ver + 1, !.size = size, !.mem = mem,
                            !.panic = r.panic] IN
       /\ c' = r.c
       /\ last' = e
       /\ g' = GNext(g, e, r.c)
  /\ ver' = ver + 1
  /\ UNCHANGED cfg

DoTick ==
  /\ cfg.ttl # 0
  /\ \A k \in Dom(c) : c.store[k].age <= cfg.ttl
  /\ Dom(c) # {}
  /\ c' = Tick(c, 1)
  /\ last' = [Ev0 EXCEPT !.op = "tick", !.d = 1]
  /\ g' = GNext(g, [Ev0 EXCEPT !.op = "tick", !.d = 1], Tick(c, 1))
  /\ UNCHANGED <<cfg, ver>>

Sizes == IF cfg.maxmem = 0 THEN {1} ELSE SizesMem

Next ==
  /\ ~last.panic      \* a panicked operation ends the history
  /\ \/ \E k \in Keys : DoGet(k)
     \/ \E k \in Keys, s \in Sizes : DoInsert(k, s, cfg.maxmem # 0)
     \/ DoTick

Spec == Init /\ [][Next]_vars

\* bound the hit counters (state constraint)
Bounded == /\ \A k \in Dom(c) : c.store[k].hits <= MaxHits
           /\ \A k \in DOMAIN g.gh : g.gh[k] <= MaxHits

\* hide observation-only parts: last event and statistics counters
View == <<cfg, [store |-> c.store, order |-> c.order], ver, g>>

-----------------------------------------------------------------------------
(* properties *)

StateOK == ~last.panic => Consistent(c) /\ WithinLimits(cfg, c)

\* the ghost bookkeeping (events only) agrees with the engine's own bookkeeping
GhostAgrees ==
  ~last.panic =>
    /\ SeqRange(g.fifo) = Dom(c) /\ SeqRange(g.lru) = Dom(c)
    /\ \A k \in Dom(c) : g.val[k] = c.store[k].val /\ g.age[k] = c.store[k].age
    /\ FrequencyPolicy(cfg.policy) => \A k \in Dom(c) : g.gh[k] = c.store[k].hits

\* ... and is a function of the engine state: this is what lets the edge-conformance check look at
\* single transitions of the real engine without their history
GhostFromState ==
  ~last.panic =>
    /\ cfg.policy = "fifo" => g.fifo = c.order
    /\ RecencyPolicy(cfg.policy) /\ (IsAsync(cfg) => AsyncRecencyGuard(cfg)) => g.lru = c.order

StepOK == \A id \in EngineMonitorIds : Monitor(id, cfg, c, last', c', g)

MonitorsHold == [][StepOK]_vars
M_C01 == [][Monitor("C01", cfg, c, last', c', g)]_vars
M_C04 == [][Monitor("C04", cfg, c, last', c', g)]_vars
M_C05 == [][Monitor("C05", cfg, c, last', c', g)]_vars
M_C06 == [][Monitor("C06", cfg, c, last', c', g)]_vars
M_C07 == [][Monitor("C07", cfg, c, last', c', g)]_vars
M_C08 == [][Monitor("C08", cfg, c, last', c', g)]_vars
M_C16 == [][Monitor("C16", cfg, c, last', c', g)]_vars

\* statistics: every lookup counts exactly once
StatsStep == (last'.op = "get") =>
                /\ c'.hitsS + c'.missS = c.hitsS + c.missS + 1
                /\ c'.hitsS = c.hitsS + (IF last'.ret # None THEN 1 ELSE 0)
StatsExact == [][StatsStep]_vars
=============================================================================
