------------------------------ MODULE SystemMC ------------------------------
(* Model-checking layouts for System.tla. *)
EXTENDS System

CONSTANTS LayoutSet,   \* name of the layout family to check
          MaxLookups   \* bound on hits + misses per cache (state constraint)

Cfg(f, p, l, t, m, w) == [flavour |-> f, policy |-> p, limit |-> l, ttl |-> t, maxmem |-> m, w |-> w]

Meta(fix, cname, kind, isRes, cif, inv, tags, events, deps) ==
  [fixture |-> fix, cacheName |-> cname, kind |-> kind, isResult |-> isRes, hasCif |-> cif,
   hasInv |-> inv, stats |-> kind # "thread", tags |-> tags, events |-> events, deps |-> deps,
   warm |-> FALSE]

Kinds == {"sync", "thread", "async"}

\* one function with the given wrapper attributes, a few engine configurations
Wrap(R, C, I, Pols, Limits, Ttls) ==
  { [cfgs |-> ("f" :> Cfg(kd, p, l, t, 0, "none")),
     metas |-> ("f" :> Meta("f", "f", kd, r, c, i, <<>>, <<>>, <<>>))] :
      kd \in Kinds, p \in Pols, l \in Limits, t \in Ttls, r \in R, c \in C, i \in I }

WrapLayouts == Wrap(BOOLEAN, BOOLEAN, BOOLEAN, {"fifo", "lru", "lfu"}, {0, 2}, {0, 2})

\* memory-limited functions (String-like values of several sizes)
MemLayouts ==
  { [cfgs |-> ("f" :> Cfg(kd, p, l, 0, 3, "none")),
     metas |-> ("f" :> Meta("f", "f", kd, r, c, FALSE, <<>>, <<>>, <<>>))] :
      kd \in Kinds, p \in {"fifo", "lru", "lfu", "random"}, l \in {0, 2}, r \in BOOLEAN, c \in BOOLEAN }

\* thread scope: the same function seen from two threads, next to a global one
ThreadLayouts ==
  { [cfgs |-> ("f@t1" :> Cfg("thread", p, l, 0, 0, "none")) @@ ("f@t2" :> Cfg("thread", p, l, 0, 0, "none"))
              @@ ("h" :> Cfg(kd, p, l, 0, 0, "none")),
     metas |-> ("f@t1" :> Meta("f", "f", "thread", FALSE, FALSE, FALSE, <<>>, <<>>, <<>>))
               @@ ("f@t2" :> Meta("f", "f", "thread", FALSE, FALSE, FALSE, <<>>, <<>>, <<>>))
               @@ ("h" :> Meta("h", "h", kd, FALSE, FALSE, FALSE, <<>>, <<>>, <<>>))] :
      p \in {"fifo", "lru", "lfu"}, l \in {0, 1}, kd \in {"sync", "async"} }

\* registry: three named functions, sync and async mixed, with tag / event / dependency metadata
\* (including one function without any metadata and a custom name)
RegLayouts ==
  { [cfgs |-> ("a" :> Cfg("sync", p, l, 0, 0, "none")) @@ ("b" :> Cfg("async", p, l, 0, 0, "none"))
              @@ ("c" :> Cfg(kd, "fifo", 0, 0, 0, "none")),
     metas |-> ("a" :> Meta("a", "a", "sync", FALSE, FALSE, FALSE, <<"ta">>, <<>>, <<>>))
               @@ ("b" :> Meta("b", "bb", "async", FALSE, FALSE, FALSE, tb, <<"ea">>, <<"a">>))
               @@ ("c" :> Meta("c", "c", kd, FALSE, FALSE, FALSE, <<>>, ec, <<>>))] :
      p \in {"lru"}, l \in {2}, kd \in {"sync", "async"},
      tb \in {<<>>, <<"ta">>}, ec \in {<<>>, <<"ea">>} }

Layouts ==
  CASE LayoutSet = "wrap"   -> WrapLayouts
    [] LayoutSet = "c01"    -> Wrap({FALSE}, {FALSE}, BOOLEAN, {"fifo", "lru", "lfu", "random"}, {0, 2}, {0, 2})
    [] LayoutSet = "c03"    -> Wrap({FALSE}, {FALSE}, {FALSE}, {"fifo", "lru", "lfu", "arc", "random", "tlru"}, {0}, {0})
    [] LayoutSet = "c09"    -> Wrap({TRUE}, {FALSE}, {FALSE}, {"fifo", "lru", "lfu", "random"}, {0, 2}, {0, 2})
    [] LayoutSet = "c10"    -> Wrap(BOOLEAN, {TRUE}, {FALSE}, {"fifo", "lru", "lfu"}, {0, 2}, {0})
    [] LayoutSet = "c11"    -> Wrap({FALSE}, {FALSE}, {TRUE}, {"fifo", "lru", "lfu"}, {0, 2}, {0, 2})
    [] LayoutSet = "c20"    -> { L \in Wrap(BOOLEAN, {FALSE}, {FALSE}, {"fifo", "lru", "lfu"}, {0, 2}, {0, 2}) :
                                    L.metas["f"].kind = "async" }
    [] LayoutSet = "c15"    -> Wrap({FALSE}, {FALSE}, {FALSE}, {"lru"}, {0, 2}, {0, 2})
    [] LayoutSet = "mem"    -> MemLayouts
    [] LayoutSet = "thread" -> ThreadLayouts
    [] LayoutSet = "reg"    -> RegLayouts

Init == InitWith(Layouts)

GroupNames == {"ta", "ea", "a", "zz"}
RealNames == {metas[n].cacheName : n \in DOMAIN metas}
CacheNames == RealNames \cup {"nobody"}

Next ==
  /\ ~last.panic
  /\ \/ \E n \in DOMAIN cs, k \in Keys, vd \in {0, 1} : CallGet(n, k, vd)
     \/ \E ok \in BOOLEAN, cv \in {0, 1}, s \in SizesMem : CallFin(ok, cv, s)
     \/ TickAll
     \/ /\ LayoutSet = "reg"
        /\ \/ \E kind \in {"inv_tag", "inv_event", "inv_dep"}, x \in GroupNames : InvGroup(kind, x)
           \/ \E x \in CacheNames : InvName(x)
           \/ \E x \in CacheNames, S \in SUBSET Keys : InvWith(x, S)
           \/ \E sel \in [RealNames -> SUBSET Keys] : InvAllWith(sel @@ ("nobody" :> {}))
     \/ /\ LayoutSet = "c20"
        /\ \/ \E n \in DOMAIN cs, k \in Keys, vd \in {0, 1} : StartSusp(n, k, vd)
           \/ \E t \in susp, ok \in BOOLEAN : ResumeSusp(t, ok, 1, 1)
           \/ \E t \in susp : DropSusp(t)
           \/ \E x \in CacheNames, S \in SUBSET Keys : InvWith(x, S)
     \/ /\ LayoutSet \in {"c15"}
        /\ \E x \in CacheNames : StatsGet(x) \/ StatsReset(x)

Spec == Init /\ [][Next]_svars

StatsInView == LayoutSet \in {"c15"}

Bounded ==
  /\ \A n \in DOMAIN cs : \A k \in Dom(cs[n]) : cs[n].store[k].hits <= MaxHits
  /\ \A n \in DOMAIN gs : \A k \in DOMAIN gs[n].gh : gs[n].gh[k] <= MaxHits
  /\ StatsInView => \A n \in DOMAIN cs : cs[n].hitsS + cs[n].missS <= MaxLookups /\ xs[n].h + xs[n].m <= MaxLookups

\* statistics counters never influence behaviour: they are part of the explored state only in the
\* layouts that check them (there they are bounded by MaxLookups)
View == <<cfgs, metas, IF StatsInView THEN cs ELSE [n \in DOMAIN cs |-> NoStats(cs[n])], ver, pending, susp, gs,
          IF StatsInView THEN xs ELSE <<>>, usedK, pm>>
=============================================================================
