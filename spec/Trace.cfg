SPECIFICATION TraceSpec
CONSTANTS
  Quirks = {}
INVARIANT Done
CHECK_DEADLOCK FALSE
