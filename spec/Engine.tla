------------------------------- MODULE Engine -------------------------------
(***************************************************************************)
(* Pure operators describing the three cache engines of cachelito-core     *)
(*   sync   = GlobalCache        (RwLock<HashMap> + Mutex<VecDeque>)       *)
(*   thread = ThreadLocalCache   (RefCell<HashMap> + RefCell<VecDeque>)    *)
(*   async  = AsyncGlobalCache   (DashMap + Mutex<VecDeque>)               *)
(* over an abstract cache state                                            *)
(*   c = [store : Key -|-> [val, hits, age, size], order : Seq(Key),       *)
(*        hitsS, missS : Nat]                                              *)
(* and a configuration record                                              *)
(*   cfg = [flavour, policy, limit, ttl, maxmem, w]      (0 = not set)     *)
(* cfg is *data*, so one TLC run / one trace file covers many              *)
(* configurations.  Every operator that can behave nondeterministically    *)
(* (random victim, score ties) returns the SET of allowed results.         *)
(*                                                                         *)
(* The operators follow the code step by step (one clause per statement    *)
(* group of get / insert / insert_with_memory / eviction helpers), so that *)
(* recorded implementation steps can be checked against them one by one.   *)
(* As-found deviations from the intended behaviour are named quirk         *)
(* switches; Quirks = {} is the intended behaviour.                        *)
(***************************************************************************)
EXTENDS Naturals, Integers, Sequences, FiniteSets, Functions, SequencesExt, FiniteSetsExt, TLC, ScoreTab

CONSTANT Quirks   \* subset of QuirkIds

QuirkIds == {"async_keep_old", "async_recency_needs_limit", "async_rank_reversed",
             "tl_reborrow_panic"}

Policies == {"fifo", "lru", "lfu", "arc", "random", "tlru"}
Flavours == {"sync", "thread", "async"}
None     == -1            \* "no value": values are positive integers

-----------------------------------------------------------------------------
(* basic helpers *)

Dom(c) == DOMAIN c.store

EmptyCache == [store |-> <<>>, order |-> <<>>, hitsS |-> 0, missS |-> 0]

DelAll(s, k) == SelectSeq(s, LAMBDA x : x # k)

RECURSIVE FirstIdx(_, _, _)
FirstIdx(s, k, i) == IF i > Len(s) THEN 0 ELSE IF s[i] = k THEN i ELSE FirstIdx(s, k, i + 1)

DelAt(s, i) == SubSeq(s, 1, i - 1) \o SubSeq(s, i + 1, Len(s))

\* VecDeque: position(..) followed by remove(pos)
DelFirst(s, k) == LET i == FirstIdx(s, k, 1) IN IF i = 0 THEN s ELSE DelAt(s, i)

SeqRange(s) == {s[i] : i \in DOMAIN s}

Without(f, S) == Restrict(f, DOMAIN f \ S)

TotalSize(c) == MapThenSumSet(LAMBDA k : c.store[k].size, Dom(c))

MinOf(S) == CHOOSE x \in S : \A y \in S : x <= y

Entry(v, size) == [val |-> v, hits |-> 0, age |-> 0, size |-> size]

IsAsync(cfg) == cfg.flavour = "async"

-----------------------------------------------------------------------------
(* expiry:  sync/thread  elapsed().as_secs() >= ttl ;  async  now - stamp >= ttl *)

Expired(cfg, e) == cfg.ttl # 0 /\ e.age >= cfg.ttl

ExpiredKeys(cfg, c) == {k \in Dom(c) : Expired(cfg, c.store[k])}

-----------------------------------------------------------------------------
(* removal of one key from both containers                                  *)
(*   sync/thread: remove_from_maps (first queue occurrence)                 *)
(*   async      : cache.remove + order.retain(!= key)                       *)

RemoveKey(cfg, c, k) ==
  [c EXCEPT !.store = Without(c.store, {k}),
            !.order = IF IsAsync(cfg) THEN DelAll(c.order, k) ELSE DelFirst(c.order, k)]

-----------------------------------------------------------------------------
(* get *)

RecencyPolicy(p)   == p \in {"lru", "arc", "tlru"}
FrequencyPolicy(p) == p \in {"lfu", "arc", "tlru"}

\* async: the recency update on a hit is guarded (as found: by `limit.is_some()` only)
AsyncRecencyGuard(cfg) ==
  IF "async_recency_needs_limit" \in Quirks THEN cfg.limit # 0
                                            ELSE cfg.limit # 0 \/ cfg.maxmem # 0

Touch(cfg, c, k) ==
  LET c1 == IF FrequencyPolicy(cfg.policy)
            THEN [c EXCEPT !.store[k].hits = @ + 1] ELSE c
      ord == IF ~RecencyPolicy(cfg.policy) THEN c1.order
             ELSE IF IsAsync(cfg)
                  THEN IF AsyncRecencyGuard(cfg) THEN Append(DelAll(c1.order, k), k) ELSE c1.order
                  ELSE IF FirstIdx(c1.order, k, 1) = 0 THEN c1.order   \* move_key_to_end
                       ELSE Append(DelFirst(c1.order, k), k)
  IN [c1 EXCEPT !.order = ord]

\* returns [c |-> post state, ret |-> value or None]
Get(cfg, c, k) ==
  IF k \notin Dom(c)
  THEN [c |-> [c EXCEPT !.missS = @ + 1], ret |-> None]
  ELSE IF Expired(cfg, c.store[k])
       THEN [c |-> [RemoveKey(cfg, c, k) EXCEPT !.missS = @ + 1], ret |-> None]
       ELSE [c |-> Touch(cfg, [c EXCEPT !.hitsS = @ + 1], k), ret |-> c.store[k].val]

-----------------------------------------------------------------------------
(* scores of LFU / ARC / TLRU, computed per queue position                   *)

RankReversed(cfg) == IsAsync(cfg) /\ "async_rank_reversed" \in Quirks

\* weight of queue position i (1-based) in a queue of length n
PosWeight(cfg, i, n) == IF RankReversed(cfg) THEN n - (i - 1) ELSE i

Remaining(cfg, e) == IF cfg.ttl = 0 THEN 1
                     ELSE IF e.age >= cfg.ttl THEN 0 ELSE cfg.ttl - e.age

ScoreKey(w, hits, rank, rem) == ScoreTab[w][hits + 1][rank][rem + 1]

ScoreAt(cfg, c, i) ==
  LET e == c.store[c.order[i]]
      pw == PosWeight(cfg, i, Len(c.order))
  IN CASE cfg.policy = "lfu"  -> e.hits
       [] cfg.policy = "arc"  -> e.hits * pw
       [] cfg.policy = "tlru" -> ScoreKey(cfg.w, e.hits, pw, Remaining(cfg, e))

\* queue positions holding a stored key (the scan skips orphaned queue entries)
LivePositions(c) == {i \in DOMAIN c.order : c.order[i] \in Dom(c)}

\* as found (D9): the async TLRU scan compared with `score < f64::MAX`; hits^w overflows to +inf for a
\* large weight from two hits on (NaN if the entry is past its ttl), and such an entry was never a
\* candidate -- a cache full of them evicted nothing
Unevictable(cfg, c, i) ==
  /\ "async_tlru_overflow_unevictable" \in Quirks
  /\ IsAsync(cfg) /\ cfg.policy = "tlru" /\ cfg.w = "5000"
  /\ c.store[c.order[i]].hits >= 2

Candidates(cfg, c) == {i \in LivePositions(c) : ~Unevictable(cfg, c, i)}

\* all positions of minimal score: ties may be broken arbitrarily
MinScorePositions(cfg, c) ==
  LET P == Candidates(cfg, c) IN
  {i \in P : \A j \in P : ScoreAt(cfg, c, i) <= ScoreAt(cfg, c, j)}

-----------------------------------------------------------------------------
(* one eviction attempt; returns a set of [c, ok]                            *)
(*   mode "until": FIFO/LRU pop the queue front until a stored key is found  *)
(*   mode "one"  : FIFO/LRU pop exactly one queue entry (thread-local and    *)
(*                 async memory loops), which counts as an eviction even if  *)
(*                 the popped key was an orphan                              *)

PopMode(cfg, phase) ==
  IF phase = "limit" THEN "until"
  ELSE IF cfg.flavour = "sync" THEN "until" ELSE "one"

EvictOne(cfg, c, phase) ==
  CASE cfg.policy \in {"lfu", "arc", "tlru"} ->
         IF Candidates(cfg, c) = {} THEN {[c |-> c, ok |-> FALSE]}
         ELSE {[c |-> RemoveKey(cfg, c, c.order[i]), ok |-> TRUE] : i \in MinScorePositions(cfg, c)}
    [] cfg.policy = "random" ->
         IF c.order = <<>> THEN {[c |-> c, ok |-> FALSE]}
         ELSE {[c |-> [c EXCEPT !.order = DelAt(c.order, i),
                                !.store = Without(c.store, {c.order[i]})],
                ok |-> TRUE] : i \in DOMAIN c.order}
    [] cfg.policy \in {"fifo", "lru"} ->
         IF PopMode(cfg, phase) = "until"
         THEN LET P == LivePositions(c) IN
              IF P = {} THEN {[c |-> [c EXCEPT !.order = <<>>], ok |-> FALSE]}
              ELSE LET i == MinOf(P) IN
                   {[c |-> [c EXCEPT !.order = SubSeq(c.order, i + 1, Len(c.order)),
                                     !.store = Without(c.store, {c.order[i]})],
                     ok |-> TRUE]}
         ELSE IF c.order = <<>> THEN {[c |-> c, ok |-> FALSE]}
              ELSE {[c |-> [c EXCEPT !.order = Tail(c.order),
                                     !.store = Without(c.store, {Head(c.order)})],
                     ok |-> TRUE]}

\* thread-local LFU/ARC/TLRU as found: the eviction helper re-borrows the queue RefCell that the
\* caller still holds mutably -> "already borrowed" panic as soon as a victim has been selected
TLPanics(cfg, c) ==
  /\ "tl_reborrow_panic" \in Quirks
  /\ cfg.flavour = "thread"
  /\ cfg.policy \in {"lfu", "arc", "tlru"}
  /\ LivePositions(c) # {}

-----------------------------------------------------------------------------
(* entry-limit step; returns a set of [c, panic]                             *)
(*   sync/thread: runs after the new key is queued, `order.len() > limit`    *)
(*   async      : runs before the new key is stored, `cache.len() >= limit`  *)

LimitExceeded(cfg, c) ==
  /\ cfg.limit # 0
  /\ IF IsAsync(cfg) THEN Cardinality(Dom(c)) >= cfg.limit ELSE Len(c.order) > cfg.limit

LimitStep(cfg, c) ==
  IF ~LimitExceeded(cfg, c) THEN {[c |-> c, panic |-> FALSE]}
  ELSE IF TLPanics(cfg, c) THEN {[c |-> c, panic |-> TRUE]}
  ELSE {[c |-> r.c, panic |-> FALSE] : r \in EvictOne(cfg, c, "limit")}

-----------------------------------------------------------------------------
(* memory loop: evict in policy order until the total (plus, for async, the  *)
(* pending new value) fits, or nothing is left to evict                      *)

RECURSIVE MemLoop(_, _, _)
MemLoop(cfg, c, pending) ==
  IF TotalSize(c) + pending <= cfg.maxmem THEN {[c |-> c, panic |-> FALSE]}
  ELSE IF TLPanics(cfg, c) THEN {[c |-> c, panic |-> TRUE]}
  ELSE UNION { IF r.ok THEN MemLoop(cfg, r.c, pending) ELSE {[c |-> r.c, panic |-> FALSE]}
               : r \in EvictOne(cfg, c, "mem") }

\* continue with f only on the branches that did not panic
Then(S, f(_)) == UNION { IF r.panic THEN {r} ELSE f(r.c) : r \in S }

-----------------------------------------------------------------------------
(* insert / insert_with_memory; both return a set of [c, panic]             *)

\* sync + thread: map.insert, then reposition in the queue
PutBack(c, k, v, size) ==
  [c EXCEPT !.store = (k :> Entry(v, size)) @@ c.store,
            !.order = Append(DelFirst(c.order, k), k)]

\* async: queue first, then DashMap insert
PushPut(c, k, v, size) ==
  [c EXCEPT !.order = Append(c.order, k),
            !.store = (k :> Entry(v, size)) @@ c.store]

\* async, key already present.  As found: keep the old entry (and for LRU/ARC move the key to the
\* queue back) and return.  Intended: drop the old entry and continue as a fresh insert.
AsyncKeepsOld(cfg, c, k) == IsAsync(cfg) /\ k \in Dom(c) /\ "async_keep_old" \in Quirks

AsyncKeepOld(cfg, c, k) ==
  IF cfg.policy \in {"lru", "arc"}
  THEN [c EXCEPT !.order = Append(DelAll(c.order, k), k)] ELSE c

AsyncDropOld(cfg, c, k) == IF k \in Dom(c) THEN RemoveKey(cfg, c, k) ELSE c

InsertPlain(cfg, c, k, v, size) ==
  IF ~IsAsync(cfg)
  THEN LimitStep(cfg, PutBack(c, k, v, size))
  ELSE IF AsyncKeepsOld(cfg, c, k) THEN {[c |-> AsyncKeepOld(cfg, c, k), panic |-> FALSE]}
  ELSE LET c0 == AsyncDropOld(cfg, c, k) IN
       Then(LimitStep(cfg, c0), LAMBDA c1 : {[c |-> PushPut(c1, k, v, size), panic |-> FALSE]})

InsertMem(cfg, c, k, v, size) ==
  IF cfg.maxmem = 0 THEN InsertPlain(cfg, c, k, v, size)
  ELSE IF ~IsAsync(cfg)
  THEN LET c0 == PutBack(c, k, v, size) IN
       IF size > cfg.maxmem
       THEN {[c |-> [c0 EXCEPT !.store = Without(c0.store, {k}),
                               !.order = SubSeq(c0.order, 1, Len(c0.order) - 1)],
              panic |-> FALSE]}
       ELSE Then(MemLoop(cfg, c0, 0), LAMBDA c1 : LimitStep(cfg, c1))
  ELSE IF AsyncKeepsOld(cfg, c, k) THEN {[c |-> AsyncKeepOld(cfg, c, k), panic |-> FALSE]}
  ELSE LET c0 == AsyncDropOld(cfg, c, k) IN
       IF size > cfg.maxmem THEN {[c |-> c0, panic |-> FALSE]}
       ELSE Then(MemLoop(cfg, c0, size),
                 LAMBDA c1 : Then(LimitStep(cfg, c1),
                                  LAMBDA c2 : {[c |-> PushPut(c2, k, v, size), panic |-> FALSE]}))

Insert(cfg, c, k, v, size, mem) ==
  IF mem THEN InsertMem(cfg, c, k, v, size) ELSE InsertPlain(cfg, c, k, v, size)

-----------------------------------------------------------------------------
(* time, invalidation, statistics *)

Tick(c, d) == [c EXCEPT !.store = [k \in DOMAIN c.store |-> [c.store[k] EXCEPT !.age = @ + d]]]

Clear(c) == [c EXCEPT !.store = <<>>, !.order = <<>>]

\* invalidate_with: remove the selected keys from store and queue
RemoveKeys(c, S) ==
  [c EXCEPT !.store = Without(c.store, S),
            !.order = SelectSeq(c.order, LAMBDA x : x \notin S)]

ResetStats(c) == [c EXCEPT !.hitsS = 0, !.missS = 0]

-----------------------------------------------------------------------------
(* well-formedness of a state in sequential use *)

NoDup(s) == \A i, j \in DOMAIN s : s[i] = s[j] => i = j

Consistent(c) == NoDup(c.order) /\ SeqRange(c.order) = Dom(c)

WithinLimits(cfg, c) ==
  /\ cfg.limit # 0 => Cardinality(Dom(c)) <= cfg.limit
  /\ cfg.maxmem # 0 => TotalSize(c) <= cfg.maxmem
=============================================================================
