//! Macro-level driver: calls the generated #[cache] / #[cache_async] fixtures on dedicated worker
//! threads, one operation at a time, and logs every call as one or two sub-events with the full
//! projected state of every cache of the trace (through the `verif-hooks` inspectors):
//!   get : the wrapper's lookup (state captured inside the body, i.e. after the lookup and before
//!         the store; or at return when the body did not run)
//!   fin : the rest of an executed call (body result, predicate verdicts, state at return)
//! plus invalidation / statistics / clock events.

use crate::common::*;
use cachelito_core::verif;
use serde::Deserialize;
use serde_json::{json, Map, Value};
use std::cell::RefCell;
use std::collections::{BTreeMap, BTreeSet, HashMap};
use std::future::Future;
use std::panic::{catch_unwind, AssertUnwindSafe};
use std::pin::Pin;
use std::sync::atomic::{AtomicI64, Ordering};
use std::sync::mpsc::{channel, Receiver, Sender};
use std::task::{Context, Poll, RawWaker, RawWakerVTable, Waker};

// ---------------------------------------------------------------------------------------------
// values
// ---------------------------------------------------------------------------------------------

pub struct Raw {
    pub ver: i64,
    pub ok: bool,
    pub size: usize,
}

#[derive(Clone, Debug)]
pub struct Out {
    pub ok: bool,
    pub val: i64,
    /// the library's estimate for a clone of the value (what a store of it would be charged)
    pub est: usize,
}

pub fn pad(ver: i64, size: usize) -> String {
    // String estimate = 24 bytes inline + capacity; a clone's capacity equals its length
    let mut s = ver.to_string();
    let want = size.saturating_sub(24);
    while s.len() < want {
        s.push('x');
    }
    s
}

/// A value whose `Clone` is a scheduling point for managed threads (no-op otherwise).
#[derive(Debug, PartialEq)]
pub struct Y(pub i64);
impl Clone for Y {
    fn clone(&self) -> Self {
        parking_lot::sched::yield_point(77);
        Y(self.0)
    }
}
impl cachelito_core::MemoryEstimator for Y {
    fn estimate_memory(&self) -> usize {
        std::mem::size_of::<Y>()
    }
}
pub fn raw_y(r: Raw) -> Y {
    Y(r.ver)
}
pub fn out_y(v: &Y) -> Out {
    Out {
        ok: true,
        val: v.0,
        est: std::mem::size_of::<Y>(),
    }
}
pub fn raw_i64(r: Raw) -> i64 {
    r.ver
}
pub fn raw_res(r: Raw) -> Result<i64, String> {
    if r.ok {
        Ok(r.ver)
    } else {
        Err(r.ver.to_string())
    }
}
pub fn raw_str(r: Raw) -> String {
    pad(r.ver, r.size)
}
pub fn raw_res_str(r: Raw) -> Result<String, String> {
    if r.ok {
        Ok(pad(r.ver, r.size))
    } else {
        Err(r.ver.to_string())
    }
}

pub fn leading_int(s: &str) -> i64 {
    let digits: String = s
        .chars()
        .skip_while(|c| !c.is_ascii_digit())
        .take_while(|c| c.is_ascii_digit())
        .collect();
    digits.parse().unwrap_or(-7)
}

fn est_of<T: Clone + cachelito_core::MemoryEstimator>(v: &T) -> usize {
    v.clone().estimate_memory()
}

pub fn out_i64(v: &i64) -> Out {
    Out {
        ok: true,
        val: *v,
        est: est_of(v),
    }
}
pub fn out_res(v: &Result<i64, String>) -> Out {
    match v {
        Ok(x) => Out {
            ok: true,
            val: *x,
            est: est_of(v),
        },
        Err(s) => Out {
            ok: false,
            val: leading_int(s),
            est: est_of(v),
        },
    }
}
pub fn out_str(v: &String) -> Out {
    Out {
        ok: true,
        val: leading_int(v),
        est: est_of(v),
    }
}
pub fn out_res_str(v: &Result<String, String>) -> Out {
    match v {
        Ok(x) => Out {
            ok: true,
            val: leading_int(x),
            est: est_of(v),
        },
        Err(s) => Out {
            ok: false,
            val: leading_int(s),
            est: est_of(v),
        },
    }
}

// ---------------------------------------------------------------------------------------------
// per-thread call context (filled by the hooks the fixtures call)
// ---------------------------------------------------------------------------------------------

static VER: AtomicI64 = AtomicI64::new(0);

#[derive(Clone, Debug, Default)]
pub struct CallScript {
    pub ok: bool,
    pub cif: bool,
    pub inv: bool,
    pub size: usize,
}

#[derive(Default)]
struct Ctx {
    script: CallScript,
    executed: bool,
    body_ret: i64,
    mid: Option<Value>,                // visible states captured inside the body
    inv_consults: Vec<(String, Out)>,  // (key, cached value)
    cif_consults: Vec<(String, Out, bool)>,  // (key, result, verdict)
    visible: Vec<(String, String, bool)>, // (sts key, cache name, thread-local?) to snapshot from this thread
    open_gates: bool,
    gate_hits: Vec<(String, u32)>,
}

thread_local! {
    static CTX: RefCell<Ctx> = RefCell::new(Ctx { open_gates: true, ..Default::default() });
}

pub fn body(_name: &'static str, _k: u32) -> Raw {
    let ver = VER.fetch_add(1, Ordering::SeqCst) + 1;
    let visible = CTX.with(|c| c.borrow().visible.clone());
    let mid = snapshot_visible(&visible);
    CTX.with(|c| {
        let mut c = c.borrow_mut();
        c.executed = true;
        c.body_ret = ver;
        c.mid = Some(mid);
        Raw {
            ver,
            ok: c.script.ok,
            size: c.script.size,
        }
    })
}

/// Install the script of the next call on this thread (used by drivers that call fixtures directly).
pub fn set_script(s: CallScript) {
    CTX.with(|c| {
        let mut c = c.borrow_mut();
        c.script = s;
        c.executed = false;
        c.body_ret = 0;
        c.mid = None;
        c.inv_consults.clear();
        c.cif_consults.clear();
    });
}

/// (did the body run since set_script, its result)
pub fn take_exec() -> (bool, i64) {
    CTX.with(|c| {
        let c = c.borrow();
        (c.executed, c.body_ret)
    })
}

pub fn consult_inv(_name: &'static str, key: &String, v: Out) -> bool {
    CTX.with(|c| {
        let mut c = c.borrow_mut();
        c.inv_consults.push((key.clone(), v));
        c.script.inv
    })
}

pub fn consult_cif(_name: &'static str, key: &String, v: Out) -> bool {
    CTX.with(|c| {
        let mut c = c.borrow_mut();
        let verdict = c.script.cif;
        c.cif_consults.push((key.clone(), v, verdict));
        verdict
    })
}

/// Await point inside async fixture bodies: Ready at once in sequential drivers; the C20 poller
/// closes the gates and opens them one by one.
pub struct Gate {
    name: &'static str,
    idx: u32,
}

impl Future for Gate {
    type Output = ();
    fn poll(self: Pin<&mut Self>, _cx: &mut Context<'_>) -> Poll<()> {
        let open = GATES.with(|g| {
            let g = g.borrow();
            g.all_open || self.idx <= g.open_upto || g.open.contains(&(self.name.to_string(), self.idx))
        });
        if open {
            Poll::Ready(())
        } else {
            Poll::Pending
        }
    }
}

#[derive(Default)]
pub struct Gates {
    pub all_open: bool,
    /// gates 1..=open_upto of the task being polled are open
    pub open_upto: u32,
    pub open: BTreeSet<(String, u32)>,
}

thread_local! {
    pub static GATES: RefCell<Gates> = RefCell::new(Gates { all_open: true, open_upto: 0, open: BTreeSet::new() });
}

pub fn gate(name: &'static str, idx: u32) -> Gate {
    Gate { name, idx }
}

// ---------------------------------------------------------------------------------------------
// state projection through the inspectors
// ---------------------------------------------------------------------------------------------

pub fn project(snap: &verif::Snapshot, stats_name: Option<&str>) -> St {
    let mut store = BTreeMap::new();
    for e in &snap.entries {
        store.insert(
            e.key.clone(),
            Ent {
                val: leading_int(&e.value),
                hits: e.frequency,
                age: e.age_ms / 1000,
                size: e.est.unwrap_or(1),
            },
        );
    }
    let (h, m) = match stats_name.and_then(cachelito_core::stats_registry::get) {
        Some(s) => (s.hits(), s.misses()),
        None => (0, 0),
    };
    St {
        store,
        order: snap.order.clone(),
        hits_s: h,
        miss_s: m,
    }
}

/// Snapshot the caches this thread can see: (sts key, cache name, is thread-local).
pub fn snapshot_visible(visible: &[(String, String, bool)]) -> Value {
    let mut m = Map::new();
    for (key, cname, tl) in visible {
        let st = if *tl {
            match verif::thread_inspector(cname) {
                Some(i) => project(&i.snapshot(), None),
                None => St::default(),
            }
        } else {
            match verif::inspector(cname) {
                Some(i) => project(&i.snapshot(), Some(cname)),
                None => St::default(),
            }
        };
        m.insert(key.clone(), json!(st));
    }
    Value::Object(m)
}

// ---------------------------------------------------------------------------------------------
// minimal executor
// ---------------------------------------------------------------------------------------------

fn noop_waker() -> Waker {
    fn clone(_: *const ()) -> RawWaker {
        RawWaker::new(std::ptr::null(), &VTABLE)
    }
    fn noop(_: *const ()) {}
    static VTABLE: RawWakerVTable = RawWakerVTable::new(clone, noop, noop, noop);
    unsafe { Waker::from_raw(RawWaker::new(std::ptr::null(), &VTABLE)) }
}

pub fn poll_once<T>(f: &mut Pin<Box<dyn Future<Output = T>>>) -> Poll<T> {
    let w = noop_waker();
    let mut cx = Context::from_waker(&w);
    f.as_mut().poll(&mut cx)
}

pub fn block_on<T>(mut f: Pin<Box<dyn Future<Output = T>>>) -> T {
    for _ in 0..10_000 {
        if let Poll::Ready(v) = poll_once(&mut f) {
            return v;
        }
    }
    panic!("future did not complete (gates closed?)");
}

// ---------------------------------------------------------------------------------------------
// fixture table
// ---------------------------------------------------------------------------------------------

#[derive(Clone, Debug, Deserialize)]
pub struct Fixture {
    pub name: String,
    pub cache_name: String,
    pub kind: String,
    #[serde(rename = "isResult")]
    pub is_result: bool,
    #[serde(rename = "hasCif")]
    pub has_cif: bool,
    #[serde(rename = "hasInv")]
    pub has_inv: bool,
    pub tags: Vec<String>,
    pub events: Vec<String>,
    pub deps: Vec<String>,
    #[serde(default)]
    pub awaits: u32,
    /// how the cache key is built from the driver's key number (signature shape)
    #[serde(default = "default_keyfmt")]
    pub keyfmt: String,
    pub cfg: Cfg,
}

fn default_keyfmt() -> String {
    "{k}".to_string()
}

impl Fixture {
    /// The cache key the wrapper builds when the driver calls this fixture with key number k.
    pub fn key_of(&self, k: u32) -> String {
        self.keyfmt
            .replace("{k}", &k.to_string())
            .replace("{e}", if k % 2 == 0 { "true" } else { "false" })
            .replace("{n}", &(k as i64 + 100).to_string())
    }
}

pub fn load_fixtures() -> HashMap<String, Fixture> {
    let path = concat!(env!("CARGO_MANIFEST_DIR"), "/fixtures.json");
    let v: Vec<Fixture> =
        serde_json::from_str(&std::fs::read_to_string(path).expect("fixtures.json")).unwrap();
    v.into_iter().map(|f| (f.name.clone(), f)).collect()
}

// ---------------------------------------------------------------------------------------------
// worker threads
// ---------------------------------------------------------------------------------------------

pub enum Req {
    SetVisible(Vec<(String, String, bool)>),
    Call {
        fixture: String,
        is_async: bool,
        k: u32,
        script: CallScript,
    },
    /// create the future of an async fixture call and poll it once with every gate closed
    Start {
        task: String,
        fixture: String,
        k: u32,
        script: CallScript,
    },
    /// open the task's gates 1..=upto and poll it once
    Resume {
        task: String,
        upto: u32,
    },
    DropTask {
        task: String,
    },
    Snapshot,
    ShiftAge {
        names: Vec<String>,
        d: u64,
    },
    ResetLocal(Vec<String>),
    Quit,
}

pub struct CallResult {
    pub executed: bool,
    pub body_ret: i64,
    pub mid: Option<Value>,
    pub ret: Option<Out>,
    pub panic: Option<String>,
    pub inv_consults: Vec<(String, Out)>,
    pub cif_consults: Vec<(String, Out, bool)>,
    pub after: Value,
}

pub enum Resp {
    Done,
    Call(Box<CallResult>),
    /// a poll: (ready?, result with the context as of this poll)
    Poll(bool, Box<CallResult>),
    Snap(Value),
}

struct Task {
    fut: Pin<Box<dyn Future<Output = Out>>>,
    script: CallScript,
    executed: bool,
    body_ret: i64,
}

pub struct Worker {
    pub tx: Sender<Req>,
    pub rx: Receiver<Resp>,
}

fn poll_task(t: &mut Task, upto: u32) -> (bool, CallResult) {
    // the task's own script / gates are in force while it is polled
    CTX.with(|c| {
        let mut c = c.borrow_mut();
        c.script = t.script.clone();
        c.executed = false;
        c.mid = None;
        c.inv_consults.clear();
        c.cif_consults.clear();
    });
    GATES.with(|g| {
        let mut g = g.borrow_mut();
        g.all_open = false;
        g.open_upto = upto;
    });
    let r = catch_unwind(AssertUnwindSafe(|| poll_once(&mut t.fut)));
    GATES.with(|g| {
        let mut g = g.borrow_mut();
        g.all_open = true;
        g.open_upto = 0;
    });
    let visible = CTX.with(|c| c.borrow().visible.clone());
    let after = snapshot_visible(&visible);
    let (ready, ret, panic) = match r {
        Ok(Poll::Ready(o)) => (true, Some(o), None),
        Ok(Poll::Pending) => (false, None, None),
        Err(e) => (true, None, Some(panic_msg(&e))),
    };
    let res = CTX.with(|c| {
        let mut c = c.borrow_mut();
        if c.executed {
            t.executed = true;
            t.body_ret = c.body_ret;
        }
        CallResult {
            executed: t.executed,
            body_ret: t.body_ret,
            mid: c.mid.take(),
            ret,
            panic,
            inv_consults: std::mem::take(&mut c.inv_consults),
            cif_consults: std::mem::take(&mut c.cif_consults),
            after,
        }
    });
    (ready, res)
}

fn worker_main(rx: Receiver<Req>, tx: Sender<Resp>) {
    let mut tasks: HashMap<String, Task> = HashMap::new();
    while let Ok(req) = rx.recv() {
        match req {
            Req::Start {
                task,
                fixture,
                k,
                script,
            } => {
                let fut = crate::fixtures_gen::call_async(&fixture, k).expect("async fixture");
                let mut t = Task {
                    fut,
                    script,
                    executed: false,
                    body_ret: 0,
                };
                let (ready, res) = poll_task(&mut t, 0);
                if !ready {
                    tasks.insert(task, t);
                }
                tx.send(Resp::Poll(ready, Box::new(res))).unwrap();
            }
            Req::Resume { task, upto } => {
                let mut t = tasks.remove(&task).expect("unknown task");
                let (ready, res) = poll_task(&mut t, upto);
                if !ready {
                    tasks.insert(task, t);
                }
                tx.send(Resp::Poll(ready, Box::new(res))).unwrap();
            }
            Req::DropTask { task } => {
                let t = tasks.remove(&task);
                drop(t);
                let visible = CTX.with(|c| c.borrow().visible.clone());
                tx.send(Resp::Snap(snapshot_visible(&visible))).unwrap();
            }
            Req::SetVisible(v) => {
                CTX.with(|c| c.borrow_mut().visible = v);
                tx.send(Resp::Done).unwrap();
            }
            Req::Call {
                fixture,
                is_async,
                k,
                script,
            } => {
                CTX.with(|c| {
                    let mut c = c.borrow_mut();
                    c.script = script;
                    c.executed = false;
                    c.body_ret = 0;
                    c.mid = None;
                    c.inv_consults.clear();
                    c.cif_consults.clear();
                });
                let r = catch_unwind(AssertUnwindSafe(|| {
                    if is_async {
                        block_on(crate::fixtures_gen::call_async(&fixture, k).expect("fixture"))
                    } else {
                        crate::fixtures_gen::call_sync(&fixture, k).expect("fixture")
                    }
                }));
                let visible = CTX.with(|c| c.borrow().visible.clone());
                let after = snapshot_visible(&visible);
                let res = CTX.with(|c| {
                    let mut c = c.borrow_mut();
                    CallResult {
                        executed: c.executed,
                        body_ret: c.body_ret,
                        mid: c.mid.take(),
                        ret: r.as_ref().ok().cloned(),
                        panic: r.as_ref().err().map(panic_msg),
                        inv_consults: std::mem::take(&mut c.inv_consults),
                        cif_consults: std::mem::take(&mut c.cif_consults),
                        after,
                    }
                });
                tx.send(Resp::Call(Box::new(res))).unwrap();
            }
            Req::Snapshot => {
                let visible = CTX.with(|c| c.borrow().visible.clone());
                tx.send(Resp::Snap(snapshot_visible(&visible))).unwrap();
            }
            Req::ShiftAge { names, d } => {
                for n in names {
                    if let Some(i) = verif::thread_inspector(&n) {
                        i.shift_age(d);
                    }
                }
                tx.send(Resp::Done).unwrap();
            }
            Req::ResetLocal(names) => {
                for n in names {
                    if let Some(i) = verif::thread_inspector(&n) {
                        i.reset();
                    }
                }
                tx.send(Resp::Done).unwrap();
            }
            Req::Quit => break,
        }
    }
}

pub fn spawn_workers(n: usize) -> Vec<Worker> {
    (0..n)
        .map(|i| {
            let (tx, rx) = channel::<Req>();
            let (rtx, rrx) = channel::<Resp>();
            std::thread::Builder::new()
                .name(format!("worker-{}", i + 1))
                .spawn(move || worker_main(rx, rtx))
                .unwrap();
            Worker { tx, rx: rrx }
        })
        .collect()
}

impl Worker {
    pub fn ask(&self, r: Req) -> Resp {
        self.tx.send(r).unwrap();
        self.rx.recv().expect("worker died")
    }
    /// None when the worker does not answer within 15 s (it hangs: e.g. a lock kept across an await)
    pub fn ask_timeout(&self, r: Req) -> Option<Resp> {
        self.tx.send(r).unwrap();
        self.rx.recv_timeout(std::time::Duration::from_secs(15)).ok()
    }
}

pub fn current_version() -> i64 {
    VER.load(Ordering::SeqCst)
}

pub fn reset_versions() {
    VER.store(0, Ordering::SeqCst);
}
