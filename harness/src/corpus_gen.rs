//! C19 corpus of decorated functions (generated: corpus_gen_real.rs), behind the `corpus` feature so
//! that the rest of the harness still builds when a change to the macros makes a VALID attribute
//! list of the corpus fail to compile (the C19 check then reports exactly that).
#[cfg(feature = "corpus")]
#[path = "corpus_gen_real.rs"]
mod real;
#[cfg(feature = "corpus")]
pub use real::{call_async, call_sync};

#[cfg(not(feature = "corpus"))]
pub fn call_sync(_name: &str, _k: u32) -> Option<crate::macrodrv::Out> {
    None
}
#[cfg(not(feature = "corpus"))]
pub fn call_async(
    _name: &str,
    _k: u32,
) -> Option<std::pin::Pin<Box<dyn std::future::Future<Output = crate::macrodrv::Out>>>> {
    None
}
