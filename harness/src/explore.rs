//! Exhaustive bounded exploration of the REAL engines' state graph (core level).
//!
//! Breadth-first over projected states: every state the real code produced is re-established by
//! direct injection into the containers the harness owns, every operation of the bounded alphabet
//! is applied to it, and each distinct transition (pre, event, post) is logged once. TLC then
//! checks every logged transition against the specification's action relation and the monitors
//! (Edges.tla); if all conform, the implementation's bounded state graph is a sub-graph of the
//! specification's, on which TLC has proved the properties.

use crate::common::*;
use crate::engine::*;
use serde::Deserialize;
use serde_json::{json, Value};
use std::collections::{HashMap, HashSet, VecDeque};

#[derive(Clone, Debug, Deserialize)]
pub struct Bounds {
    pub keys: Vec<String>,
    pub sizes: Vec<usize>, // sizes used when maxmem != 0 (size 1 otherwise)
    pub max_ver: i64,
    pub max_hits: u64,
    #[serde(default = "one")]
    pub seeds: u64, // executions per (state, op) for the random policy
    #[serde(default)]
    pub max_states: usize,
    /// stop expanding a configuration after this many logged transitions (0 = no budget)
    #[serde(default)]
    pub max_edges: usize,
}
fn one() -> u64 {
    1
}

#[derive(Clone, Debug, Deserialize)]
pub struct Group {
    pub cfgs: Vec<Cfg>,
    pub bounds: Bounds,
}

#[derive(Clone, Debug, Deserialize)]
pub struct ExploreJob {
    pub groups: Vec<Group>,
}

#[derive(Clone, Debug)]
enum XOp {
    Get(String),
    Ins(String, usize, bool),
    Tick,
}

fn key_of(st: &St, ver: i64) -> String {
    // statistics are observation only: not part of the state identity
    format!("{:?}|{:?}|{}", st.store, st.order, ver)
}

struct Stats {
    states: usize,
    edges: usize,
    truncated: bool,
}

fn explore_cfg(cfg: &Cfg, b: &Bounds, w: &mut TraceWriter, cfg_id: usize) -> Stats {
    let parts = AsyncParts::new();
    let eng = Eng::new(cfg, &parts);
    let init = St::default();
    // state key -> state id (0 = the empty cache); ids are the parent pointers of the log
    let mut seen: HashMap<String, i64> = HashMap::new();
    let mut queue: VecDeque<(St, i64, i64)> = VecDeque::new();
    seen.insert(key_of(&init, 0), 0);
    queue.push_back((init, 0, 0));
    let mut edges = 0usize;
    let mut states = 1usize;
    let mut truncated = false;
    let sizes: Vec<usize> = if cfg.maxmem == 0 {
        vec![1]
    } else {
        b.sizes.clone()
    };
    let nseeds = if cfg.policy == "random" { b.seeds.max(1) } else { 1 };
    while let Some((st, ver, uid)) = queue.pop_front() {
        if b.max_edges != 0 && edges >= b.max_edges {
            truncated = true;
            break;
        }
        // state constraint (same as the model's): hit counters bounded
        if st.store.values().any(|e| e.hits > b.max_hits) {
            continue;
        }
        let mut ops: Vec<XOp> = Vec::new();
        for k in &b.keys {
            ops.push(XOp::Get(k.clone()));
        }
        if ver < b.max_ver {
            for k in &b.keys {
                for s in &sizes {
                    ops.push(XOp::Ins(k.clone(), *s, cfg.maxmem != 0));
                }
            }
        }
        if cfg.ttl != 0 && !st.store.is_empty() && st.store.values().all(|e| e.age <= cfg.ttl) {
            ops.push(XOp::Tick);
        }
        let mut pre0 = st.clone();
        pre0.hits_s = 0;
        pre0.miss_s = 0;
        for op in &ops {
            let mut posts: HashSet<String> = HashSet::new();
            for seed in 0..nseeds {
                // retry when the wall-clock second changes under an async cache
                let mut attempt = 0;
                let (ev, post, nver) = loop {
                    attempt += 1;
                    let sec0 = unix_now();
                    eng.inject(&st);
                    fastrand::seed(0x9E3779B97F4A7C15u64.wrapping_mul(seed + 1) ^ (edges as u64));
                    let mut m = base_event("");
                    let mut nver = ver;
                    let r = std::panic::catch_unwind(std::panic::AssertUnwindSafe(|| match op {
                        XOp::Get(k) => {
                            let r = eng.get(k);
                            Some(r.map(|x| x.ver).unwrap_or(-1))
                        }
                        XOp::Ins(k, s, mem) => {
                            eng.insert(k, Val { ver: ver + 1, size: *s }, *mem);
                            None
                        }
                        XOp::Tick => {
                            eng.tick(1);
                            None
                        }
                    }));
                    match op {
                        XOp::Get(k) => {
                            m.insert("ev".into(), json!("get"));
                            m.insert("k".into(), json!(k));
                        }
                        XOp::Ins(k, s, mem) => {
                            nver = ver + 1;
                            m.insert("ev".into(), json!("ins"));
                            m.insert("k".into(), json!(k));
                            m.insert("v".into(), json!(ver + 1));
                            m.insert("size".into(), json!(s));
                            m.insert("mem".into(), json!(mem));
                        }
                        XOp::Tick => {
                            m.insert("ev".into(), json!("tick"));
                            m.insert("d".into(), json!(1));
                        }
                    }
                    match r {
                        Ok(Some(ret)) => {
                            m.insert("ret".into(), json!(ret));
                        }
                        Ok(None) => {}
                        Err(e) => {
                            m.insert("panic".into(), json!(true));
                            m.insert("panic_msg".into(), json!(panic_msg(&e)));
                        }
                    }
                    let post = eng.snapshot();
                    if unix_now() == sec0 || attempt > 20 {
                        break (m, post, nver);
                    }
                };
                let pk = format!("{:?}", post);
                if !posts.insert(pk) {
                    continue; // same outcome as with another seed
                }
                let panicked = ev.get("panic") == Some(&json!(true));
                let mut line = serde_json::Map::new();
                line.insert("c".into(), json!(cfg_id + 1));
                line.insert("pre".into(), json!(pre0));
                line.insert("e".into(), Value::Object(ev));
                line.insert("post".into(), json!(post));
                let mut wid: i64 = -1;
                if !panicked {
                    let k = key_of(&post, nver);
                    if let Some(id) = seen.get(&k) {
                        wid = *id;
                    } else if b.max_states != 0 && states >= b.max_states {
                        truncated = true;
                    } else {
                        wid = states as i64;
                        seen.insert(k, wid);
                        states += 1;
                        queue.push_back((post, nver, wid));
                    }
                }
                line.insert("u".into(), json!(uid));
                line.insert("w".into(), json!(wid));
                w.emit(&Value::Object(line));
                edges += 1;
            }
        }
    }
    Stats {
        states,
        edges,
        truncated,
    }
}

/// `explore --job <json> --out <ndjson>`
pub fn cmd_explore(args: &[String]) -> i32 {
    let job: ExploreJob =
        serde_json::from_str(&std::fs::read_to_string(arg(args, "--job").expect("--job")).unwrap())
            .expect("job json");
    let mut w = TraceWriter::create(arg(args, "--out").expect("--out"));
    let all_cfgs: Vec<Cfg> = job.groups.iter().flat_map(|g| g.cfgs.iter().cloned()).collect();
    w.emit(&json!({"cfgs": all_cfgs}));
    let mut tot_states = 0;
    let mut tot_edges = 0;
    let mut trunc = 0;
    let mut per_cfg = Vec::new();
    let mut i = 0usize;
    for g in &job.groups {
        for cfg in &g.cfgs {
            let s = explore_cfg(cfg, &g.bounds, &mut w, i);
            i += 1;
            tot_states += s.states;
            tot_edges += s.edges;
            if s.truncated {
                trunc += 1;
            }
            per_cfg.push(json!({"cfg": cfg, "states": s.states, "edges": s.edges, "truncated": s.truncated}));
        }
    }
    w.finish();
    println!(
        "{}",
        json!({"cfgs": all_cfgs.len(), "states": tot_states, "edges": tot_edges, "truncated_cfgs": trunc, "per_cfg": per_cfg})
    );
    0
}
