//! `macro --script <jsonl> --out <ndjson>`: run scripted histories against the macro-generated
//! fixtures and log them (see macrodrv.rs for the event protocol).

use crate::common::*;
use crate::macrodrv::*;
use cachelito_core::verif;
use serde::Deserialize;
use serde_json::{json, Map, Value};
use std::collections::{BTreeMap, HashMap};
use std::io::{BufRead, BufReader};
use std::time::{Duration, Instant};

#[derive(Clone, Debug, Deserialize)]
pub struct MOp {
    pub op: String,
    #[serde(default)]
    pub f: String,
    #[serde(default = "one")]
    pub t: usize,
    #[serde(default)]
    pub k: u32,
    #[serde(default = "yes")]
    pub ok: bool,
    #[serde(default = "yes")]
    pub cif: bool,
    #[serde(default)]
    pub inv: bool,
    #[serde(default)]
    pub size: usize,
    #[serde(default)]
    pub d: u64,
    #[serde(default)]
    pub x: String,
    #[serde(default)]
    pub sel: Value,
    /// async tasks with await points (C20): task id, number of gates to open on resume
    #[serde(default)]
    pub task: String,
    #[serde(default)]
    pub upto: u32,
}
fn one() -> usize {
    1
}
fn yes() -> bool {
    true
}

#[derive(Clone, Debug, Deserialize)]
pub struct MScript {
    #[serde(default)]
    pub id: i64,
    pub fixtures: Vec<String>,
    #[serde(default = "one")]
    pub threads: usize,
    #[serde(default)]
    pub nowarm: Vec<String>,
    pub ops: Vec<MOp>,
}

pub struct Runner {
    pub fixtures: HashMap<String, Fixture>,
    pub workers: Vec<Worker>,
    /// global/async fixtures called at least once in this process (their registrations are permanent)
    pub used: std::cell::RefCell<std::collections::BTreeSet<String>>,
    /// suspended async tasks: id -> (fixture, key)
    pub tasks: std::cell::RefCell<HashMap<String, (String, u32)>>,
    pub hung: std::cell::Cell<bool>,
}

fn base(ev: &str, n: &str) -> Map<String, Value> {
    let mut m = crate::engine::base_event(ev);
    m.insert("n".into(), json!(n));
    m
}

fn merge(into: &mut Map<String, Value>, part: &Value) {
    if let Value::Object(p) = part {
        for (k, v) in p {
            into.insert(k.clone(), v.clone());
        }
    }
}

impl Runner {
    pub fn new(max_threads: usize) -> Self {
        Runner {
            fixtures: load_fixtures(),
            workers: spawn_workers(max_threads),
            used: std::cell::RefCell::new(std::collections::BTreeSet::new()),
            tasks: std::cell::RefCell::new(HashMap::new()),
            hung: std::cell::Cell::new(false),
        }
    }

    fn sts_key(&self, f: &Fixture, t: usize) -> String {
        if f.kind == "thread" {
            format!("{}@t{}", f.name, t)
        } else {
            f.name.clone()
        }
    }

    fn full_snapshot(&self, cur: &mut Map<String, Value>, threads: usize) {
        for w in &self.workers[..threads] {
            if let Resp::Snap(v) = w.ask(Req::Snapshot) {
                merge(cur, &v);
            }
        }
    }

    /// Warm up, empty and snapshot the caches of a run; returns (threads, reset line, current states).
    pub fn prepare(&self, s: &MScript, ev: &str) -> (usize, Value, Map<String, Value>) {
        let threads = s.threads.max(1).min(self.workers.len());
        let fx: Vec<&Fixture> = s
            .fixtures
            .iter()
            .map(|n| self.fixtures.get(n).unwrap_or_else(|| panic!("unknown fixture {}", n)))
            .collect();
        // visibility per worker
        for (wi, w) in self.workers[..threads].iter().enumerate() {
            let mut vis = Vec::new();
            for f in &fx {
                if f.kind == "thread" {
                    vis.push((self.sts_key(f, wi + 1), f.cache_name.clone(), true));
                } else {
                    vis.push((f.name.clone(), f.cache_name.clone(), false));
                }
            }
            w.ask(Req::SetVisible(vis));
        }
        // warm-up (registers inspectors, stats, invalidation metadata), then empty everything
        for f in &fx {
            if s.nowarm.contains(&f.name) {
                continue;
            }
            let nthreads = if f.kind == "thread" { threads } else { 1 };
            if f.kind != "thread" {
                self.used.borrow_mut().insert(f.name.clone());
            }
            for w in &self.workers[..nthreads] {
                w.ask(Req::Call {
                    fixture: f.name.clone(),
                    is_async: f.kind == "async",
                    k: 0,
                    script: CallScript {
                        ok: true,
                        cif: true,
                        inv: false,
                        size: 40,
                    },
                });
            }
        }
        for f in &fx {
            if f.kind == "thread" {
                for w in &self.workers[..threads] {
                    w.ask(Req::ResetLocal(vec![f.cache_name.clone()]));
                }
            } else {
                if let Some(i) = verif::inspector(&f.cache_name) {
                    i.reset();
                }
                cachelito_core::stats_registry::reset(&f.cache_name);
            }
        }
        reset_versions();
        let mut cur: Map<String, Value> = Map::new();
        self.full_snapshot(&mut cur, threads);
        let line = self.header_line(s, ev, threads, &cur);
        (threads, line, cur)
    }

    /// reset / quiesce line: configuration and wrapper attributes of every cache of the run
    pub fn header_line(&self, s: &MScript, ev: &str, threads: usize, cur: &Map<String, Value>) -> Value {
        let fx: Vec<&Fixture> = s.fixtures.iter().map(|n| &self.fixtures[n]).collect();
        let mut cfgs = Map::new();
        let mut metas = Map::new();
        for f in &fx {
            let keys: Vec<String> = if f.kind == "thread" {
                (1..=threads).map(|t| self.sts_key(f, t)).collect()
            } else {
                vec![f.name.clone()]
            };
            for key in keys {
                cfgs.insert(key.clone(), json!(f.cfg));
                metas.insert(
                    key.clone(),
                    json!({"fixture": f.name, "cacheName": f.cache_name, "kind": f.kind,
                           "isResult": f.is_result, "hasCif": f.has_cif, "hasInv": f.has_inv,
                           "stats": f.kind != "thread", "tags": f.tags, "events": f.events,
                           "deps": f.deps, "warm": !s.nowarm.contains(&f.name)}),
                );
            }
        }
        let mut m = base(ev, "");
        m.insert("trace".into(), json!(s.id));
        m.insert("cfgs".into(), Value::Object(cfgs));
        m.insert("metas".into(), Value::Object(metas));
        let mut pm = Map::new();
        for n in self.used.borrow().iter() {
            let f = &self.fixtures[n];
            pm.insert(
                f.cache_name.clone(),
                json!({"fixture": f.name, "tags": f.tags, "events": f.events, "deps": f.deps}),
            );
        }
        m.insert("pmetas".into(), Value::Object(pm));
        m.insert("sts".into(), Value::Object(cur.clone()));
        Value::Object(m)
    }

    /// Returns None when the run straddled a wall-clock second (caller retries).
    pub fn run(&self, s: &MScript) -> Option<Vec<Value>> {
        self.run_aligned(s, false)
    }

    /// Virtual time is exact only if the whole run lies inside one wall-clock second (whole-second
    /// stamps of the async caches) and lasts less than a second (`Instant` ages of the sync caches).
    pub fn run_aligned(&self, s: &MScript, align: bool) -> Option<Vec<Value>> {
        let (threads, line, mut cur) = self.prepare(s, "reset");
        // (also without any ttl: the projected state shows every entry's age in whole seconds)
        let timed = true;
        if timed && align {
            align_to_second();
        }
        let t0 = Instant::now();
        let sec0 = unix_now();
        let mut out: Vec<Value> = vec![line];
        self.exec_ops(s, threads, &mut cur, &mut out);
        if timed && (unix_now() != sec0 || t0.elapsed() > Duration::from_millis(900)) {
            return None;
        }
        Some(out)
    }

    /// Execute scripted operations sequentially (on the worker threads), appending their events.
    pub fn exec_ops(&self, s: &MScript, threads: usize, cur_: &mut Map<String, Value>, out: &mut Vec<Value>) {
        let fx: Vec<&Fixture> = s.fixtures.iter().map(|n| &self.fixtures[n]).collect();
        let mut cur = std::mem::take(cur_);
        for op in &s.ops {
            match op.op.as_str() {
                "call" => {
                    let f = self.fixtures.get(&op.f).expect("fixture");
                    let t = if f.kind == "thread" || threads > 1 { op.t.max(1).min(threads) } else { 1 };
                    let key = self.sts_key(f, t);
                    if f.kind != "thread" {
                        self.used.borrow_mut().insert(f.name.clone());
                    }
                    let mem = f.cfg.maxmem != 0;
                    let size = if mem { op.size.max(32) } else { 1 };
                    let resp = self.workers[t - 1].ask_timeout(Req::Call {
                        fixture: f.name.clone(),
                        is_async: f.kind == "async",
                        k: op.k,
                        script: CallScript {
                            ok: op.ok,
                            cif: op.cif,
                            inv: op.inv,
                            size,
                        },
                    });
                    let r = match resp {
                        Some(Resp::Call(r)) => r,
                        None => {
                            // the call does not return: report and stop (the worker is stuck)
                            let mut e = base("hang", &key);
                            e.insert("k".into(), json!(f.key_of(op.k)));
                            e.insert("sts".into(), Value::Object(cur.clone()));
                            out.push(Value::Object(e));
                            self.hung.set(true);
                            break;
                        }
                        _ => panic!("protocol"),
                    };
                    let kstr = f.key_of(op.k);
                    let panicked = r.panic.is_some();
                    // --- get sub-event
                    let mut g = base("get", &key);
                    g.insert("t".into(), json!(format!("t{}", t)));
                    g.insert("k".into(), json!(kstr));
                    g.insert("exec".into(), json!(r.executed));
                    let invn = r.inv_consults.len();
                    g.insert("invn".into(), json!(invn));
                    g.insert("inv".into(), json!(if invn == 0 { -1 } else if op.inv { 1 } else { 0 }));
                    g.insert(
                        "invkey".into(),
                        json!(r.inv_consults.first().map(|c| c.0.clone()).unwrap_or_default()),
                    );
                    g.insert(
                        "invval".into(),
                        json!(r.inv_consults.first().map(|c| c.1.val).unwrap_or(-1)),
                    );
                    let cached: i64 = if !r.executed {
                        r.ret.as_ref().map(|o| o.val).unwrap_or(-1)
                    } else {
                        r.inv_consults.first().map(|c| c.1.val).unwrap_or(-1)
                    };
                    g.insert("ret".into(), json!(cached));
                    g.insert("cifn".into(), json!(if r.executed { 0 } else { r.cif_consults.len() }));
                    g.insert("cret".into(), json!(r.ret.as_ref().map(|o| o.val).unwrap_or(-1)));
                    g.insert("cok".into(), json!(r.ret.as_ref().map(|o| o.ok).unwrap_or(true)));
                    if r.executed {
                        merge(&mut cur, r.mid.as_ref().unwrap());
                    } else {
                        merge(&mut cur, &r.after);
                        self.full_snapshot(&mut cur, threads);
                        if panicked {
                            g.insert("panic".into(), json!(true));
                            g.insert("panic_msg".into(), json!(r.panic.clone().unwrap()));
                        }
                    }
                    g.insert("sts".into(), Value::Object(cur.clone()));
                    out.push(Value::Object(g));
                    // --- fin sub-event
                    if r.executed {
                        let mut e = base("fin", &key);
                        e.insert("t".into(), json!(format!("t{}", t)));
                        e.insert("k".into(), json!(f.key_of(op.k)));
                        e.insert("v".into(), json!(r.body_ret));
                        let est = r.ret.as_ref().map(|o| o.est).unwrap_or(size);
                        e.insert("size".into(), json!(if mem { est } else { 1 }));
                        e.insert("mem".into(), json!(mem));
                        e.insert("ok".into(), json!(op.ok));
                        let cifn = r.cif_consults.len();
                        e.insert("cifn".into(), json!(cifn));
                        e.insert("cif".into(), json!(if cifn == 0 { -1 } else if op.cif { 1 } else { 0 }));
                        e.insert(
                            "cifkey".into(),
                            json!(r.cif_consults.first().map(|c| c.0.clone()).unwrap_or_default()),
                        );
                        e.insert(
                            "cifval".into(),
                            json!(r.cif_consults.first().map(|c| c.1.val).unwrap_or(-1)),
                        );
                        e.insert(
                            "cifok".into(),
                            json!(r.cif_consults.first().map(|c| c.1.ok).unwrap_or(true)),
                        );
                        e.insert("cret".into(), json!(r.ret.as_ref().map(|o| o.val).unwrap_or(-1)));
                        e.insert("cok".into(), json!(r.ret.as_ref().map(|o| o.ok).unwrap_or(true)));
                        if panicked {
                            e.insert("panic".into(), json!(true));
                            e.insert("panic_msg".into(), json!(r.panic.clone().unwrap()));
                        }
                        merge(&mut cur, &r.after);
                        self.full_snapshot(&mut cur, threads);
                        e.insert("sts".into(), Value::Object(cur.clone()));
                        out.push(Value::Object(e));
                    }
                    if panicked {
                        break;
                    }
                }
                "start" | "resume" | "drop" => {
                    // C20: an async call suspended at an await inside its body (worker 1 owns the tasks)
                    let info = self.tasks.borrow().get(&op.task).cloned();
                    if op.op != "start" && info.is_none() {
                        continue; // the task already completed (its first poll was a hit)
                    }
                    let (fname, kk) = if op.op == "start" {
                        (op.f.clone(), op.k)
                    } else {
                        info.clone().expect("unknown task")
                    };
                    let f = self.fixtures.get(&fname).expect("fixture");
                    let key = f.name.clone();
                    let kstr = f.key_of(kk);
                    let mem = f.cfg.maxmem != 0;
                    let free = |keys: &[String]| -> bool {
                        fx.iter().filter(|g| g.kind != "thread").all(|g| {
                            verif::inspector(&g.cache_name).map(|i| i.locks_free(keys)).unwrap_or(true)
                        })
                    };
                    if op.op == "drop" {
                        let resp = self.workers[0].ask_timeout(Req::DropTask { task: op.task.clone() });
                        self.tasks.borrow_mut().remove(&op.task);
                        let mut e = base(if resp.is_some() { "drop" } else { "hang" }, &key);
                        e.insert("k".into(), json!(kstr));
                        e.insert("task".into(), json!(op.task));
                        if let Some(Resp::Snap(v)) = resp {
                            merge(&mut cur, &v);
                        }
                        e.insert("locksFree".into(), json!(free(&[kstr.clone()])));
                        e.insert("sts".into(), Value::Object(cur.clone()));
                        out.push(Value::Object(e));
                        continue;
                    }
                    let req = if op.op == "start" {
                        self.tasks.borrow_mut().insert(op.task.clone(), (fname.clone(), kk));
                        Req::Start {
                            task: op.task.clone(),
                            fixture: fname.clone(),
                            k: kk,
                            script: CallScript {
                                ok: op.ok,
                                cif: op.cif,
                                inv: op.inv,
                                size: if mem { op.size.max(32) } else { 1 },
                            },
                        }
                    } else {
                        Req::Resume {
                            task: op.task.clone(),
                            upto: op.upto,
                        }
                    };
                    let (ready, r) = match self.workers[0].ask_timeout(req) {
                        Some(Resp::Poll(ready, r)) => (ready, r),
                        _ => {
                            let mut e = base("hang", &key);
                            e.insert("task".into(), json!(op.task));
                            e.insert("sts".into(), Value::Object(cur.clone()));
                            out.push(Value::Object(e));
                            self.hung.set(true);
                            break;
                        }
                    };
                    if ready {
                        self.tasks.borrow_mut().remove(&op.task);
                    }
                    let panicked = r.panic.is_some();
                    if op.op == "start" {
                        // the lookup part: same `get` sub-event as an ordinary call
                        let mut g = base("get", &key);
                        g.insert("t".into(), json!("t1"));
                        g.insert("task".into(), json!(op.task));
                        g.insert("k".into(), json!(kstr));
                        g.insert("exec".into(), json!(r.executed));
                        let invn = r.inv_consults.len();
                        g.insert("invn".into(), json!(invn));
                        g.insert("inv".into(), json!(if invn == 0 { -1 } else if op.inv { 1 } else { 0 }));
                        g.insert("invkey".into(), json!(r.inv_consults.first().map(|c| c.0.clone()).unwrap_or_default()));
                        g.insert("invval".into(), json!(r.inv_consults.first().map(|c| c.1.val).unwrap_or(-1)));
                        let cached: i64 = if !r.executed {
                            r.ret.as_ref().map(|o| o.val).unwrap_or(-1)
                        } else {
                            r.inv_consults.first().map(|c| c.1.val).unwrap_or(-1)
                        };
                        g.insert("ret".into(), json!(cached));
                        g.insert("cifn".into(), json!(0));
                        g.insert("cret".into(), json!(r.ret.as_ref().map(|o| o.val).unwrap_or(-1)));
                        g.insert("cok".into(), json!(r.ret.as_ref().map(|o| o.ok).unwrap_or(true)));
                        if r.executed {
                            merge(&mut cur, r.mid.as_ref().unwrap());
                        } else {
                            merge(&mut cur, &r.after);
                        }
                        if panicked && !r.executed {
                            g.insert("panic".into(), json!(true));
                        }
                        g.insert("sts".into(), Value::Object(cur.clone()));
                        out.push(Value::Object(g));
                    }
                    if !ready {
                        // still suspended: nothing may have changed, no lock may be held
                        let mut e = base("pend", &key);
                        e.insert("task".into(), json!(op.task));
                        e.insert("k".into(), json!(kstr));
                        merge(&mut cur, &r.after);
                        e.insert("locksFree".into(), json!(free(&[kstr.clone()])));
                        e.insert("sts".into(), Value::Object(cur.clone()));
                        out.push(Value::Object(e));
                    } else if r.executed {
                        let mut e = base("fin", &key);
                        e.insert("t".into(), json!("t1"));
                        e.insert("task".into(), json!(op.task));
                        e.insert("k".into(), json!(kstr));
                        e.insert("v".into(), json!(r.body_ret));
                        let est = r.ret.as_ref().map(|o| o.est).unwrap_or(1);
                        e.insert("size".into(), json!(if mem { est } else { 1 }));
                        e.insert("mem".into(), json!(mem));
                        let okv = r.ret.as_ref().map(|o| o.ok).unwrap_or(true);
                        e.insert("ok".into(), json!(okv));
                        let cifn = r.cif_consults.len();
                        e.insert("cifn".into(), json!(cifn));
                        e.insert("cif".into(), json!(if cifn == 0 { -1 } else if r.cif_consults[0].2 { 1 } else { 0 }));
                        e.insert("cifkey".into(), json!(r.cif_consults.first().map(|c| c.0.clone()).unwrap_or_default()));
                        e.insert("cifval".into(), json!(r.cif_consults.first().map(|c| c.1.val).unwrap_or(-1)));
                        e.insert("cifok".into(), json!(r.cif_consults.first().map(|c| c.1.ok).unwrap_or(true)));
                        e.insert("cret".into(), json!(r.ret.as_ref().map(|o| o.val).unwrap_or(-1)));
                        e.insert("cok".into(), json!(okv));
                        if panicked {
                            e.insert("panic".into(), json!(true));
                        }
                        merge(&mut cur, &r.after);
                        e.insert("sts".into(), Value::Object(cur.clone()));
                        out.push(Value::Object(e));
                    }
                }
                "tick" => {
                    for f in &fx {
                        if f.kind == "thread" {
                            for w in &self.workers[..threads] {
                                w.ask(Req::ShiftAge {
                                    names: vec![f.cache_name.clone()],
                                    d: op.d,
                                });
                            }
                        } else if let Some(i) = verif::inspector(&f.cache_name) {
                            i.shift_age(op.d);
                        }
                    }
                    let mut e = base("tick", "");
                    e.insert("d".into(), json!(op.d));
                    self.full_snapshot(&mut cur, threads);
                    e.insert("sts".into(), Value::Object(cur.clone()));
                    out.push(Value::Object(e));
                }
                "inv_tag" | "inv_event" | "inv_dep" => {
                    let count = match op.op.as_str() {
                        "inv_tag" => cachelito_core::invalidate_by_tag(&op.x),
                        "inv_event" => cachelito_core::invalidate_by_event(&op.x),
                        _ => cachelito_core::invalidate_by_dependency(&op.x),
                    };
                    let mut e = base(&op.op, "");
                    e.insert("x".into(), json!(op.x));
                    e.insert("count".into(), json!(count));
                    self.full_snapshot(&mut cur, threads);
                    e.insert("sts".into(), Value::Object(cur.clone()));
                    out.push(Value::Object(e));
                }
                "inv_name" => {
                    let found = cachelito_core::invalidate_cache(&op.x);
                    let mut e = base("inv_name", "");
                    e.insert("x".into(), json!(op.x));
                    e.insert("found".into(), json!(found));
                    self.full_snapshot(&mut cur, threads);
                    e.insert("sts".into(), Value::Object(cur.clone()));
                    out.push(Value::Object(e));
                }
                "inv_with" => {
                    // op.x = cache name, op.sel = list of keys the predicate accepts
                    let sel: Vec<String> = serde_json::from_value(op.sel.clone()).unwrap_or_default();
                    let found = cachelito_core::invalidate_with(&op.x, |k| sel.iter().any(|s| s == k));
                    let mut e = base("inv_with", "");
                    e.insert("x".into(), json!(op.x));
                    e.insert("sel".into(), json!(sel));
                    e.insert("found".into(), json!(found));
                    self.full_snapshot(&mut cur, threads);
                    e.insert("sts".into(), Value::Object(cur.clone()));
                    out.push(Value::Object(e));
                }
                "inv_all_with" => {
                    // op.sel = {cache name: [keys]}
                    let sel: BTreeMap<String, Vec<String>> =
                        serde_json::from_value(op.sel.clone()).unwrap_or_default();
                    let count = cachelito_core::invalidate_all_with(|c, k| {
                        sel.get(c).map(|v| v.iter().any(|s| s == k)).unwrap_or(false)
                    });
                    let mut e = base("inv_all_with", "");
                    e.insert("sel".into(), json!(sel));
                    e.insert("count".into(), json!(count));
                    self.full_snapshot(&mut cur, threads);
                    e.insert("sts".into(), Value::Object(cur.clone()));
                    out.push(Value::Object(e));
                }
                "stats_get" => {
                    let s_ = cachelito_core::stats_registry::get(&op.x);
                    let mut e = base("stats_get", "");
                    e.insert("x".into(), json!(op.x));
                    e.insert("found".into(), json!(s_.is_some()));
                    e.insert("hits".into(), json!(s_.as_ref().map(|s| s.hits()).unwrap_or(0)));
                    e.insert("misses".into(), json!(s_.as_ref().map(|s| s.misses()).unwrap_or(0)));
                    self.full_snapshot(&mut cur, threads);
                    e.insert("sts".into(), Value::Object(cur.clone()));
                    out.push(Value::Object(e));
                }
                "stats_reset" => {
                    let found = cachelito_core::stats_registry::reset(&op.x);
                    let mut e = base("stats_reset", "");
                    e.insert("x".into(), json!(op.x));
                    e.insert("found".into(), json!(found));
                    self.full_snapshot(&mut cur, threads);
                    e.insert("sts".into(), Value::Object(cur.clone()));
                    out.push(Value::Object(e));
                }
                other => panic!("unknown macro op {}", other),
            }
        }
        *cur_ = cur;
    }

    pub fn run_retry(&self, s: &MScript) -> Vec<Value> {
        for attempt in 0..60 {
            let r = self.run_aligned(s, attempt > 0);
            if self.hung.get() {
                // keep the evidence of the hang even if the second boundary was crossed meanwhile
                return r.unwrap_or_else(|| vec![json!({"ev": "hang", "n": "", "sts": {}})]);
            }
            if let Some(v) = r {
                return v;
            }
        }
        panic!("could not run a macro trace within one wall-clock second");
    }
}

pub fn cmd_macro(args: &[String]) -> i32 {
    let script = arg(args, "--script").expect("--script");
    let out = arg(args, "--out").expect("--out");
    let runner = Runner::new(4);
    let mut w = TraceWriter::create(out);
    let f = BufReader::new(std::fs::File::open(script).expect("open script"));
    let mut n = 0;
    for line in f.lines() {
        let line = line.unwrap();
        if line.trim().is_empty() {
            continue;
        }
        let s: MScript = serde_json::from_str(&line).expect("macro script line");
        w.emit_all(&runner.run_retry(&s));
        n += 1;
        if runner.hung.get() {
            break;
        }
    }
    let lines = w.lines;
    w.finish();
    println!("{{\"traces\":{},\"events\":{},\"hung\":{}}}", n, lines, runner.hung.get());
    if runner.hung.get() {
        std::process::exit(0); // a worker is stuck: leave without joining it
    }
    0
}
