//! Verification harness for cachelito: drives the real code, projects its state, logs ndjson
//! traces. It contains no oracle: expected behaviour comes from the TLA+ specification (TLC).

mod common;
mod conc;
mod corpus_gen;
mod engine;
mod explore;
mod fixtures_gen;
mod keyfix;
mod macrodrv;
mod macrorun;
mod memest;

use std::env;

fn main() {
    let args: Vec<String> = env::args().collect();
    if args.len() < 2 {
        eprintln!("usage: vharness <engine|engine-rand|...> [options]");
        std::process::exit(2);
    }
    // panics inside code under test are data, not noise
    if std::env::var("VH_PANIC").is_err() { std::panic::set_hook(Box::new(|_| {})); }
    let rest = &args[2..];
    let code = match args[1].as_str() {
        "engine" => engine::cmd_script(rest),
        "engine-rand" => engine::cmd_random(rest),
        "explore" => explore::cmd_explore(rest),
        "macro" => macrorun::cmd_macro(rest),
        "keys" => keyfix::cmd_keys(rest),
        "conc" => conc::cmd_conc(rest),
        "memest" => memest::cmd_memest(rest),
        other => {
            eprintln!("unknown subcommand {}", other);
            2
        }
    };
    std::process::exit(code);
}
