//! C05, estimator fidelity: builds values of the standard types the property names (String, Vec,
//! nested Option / Result / tuple / Box of them) with controlled lengths and capacities, and logs
//! for each the library's `estimate_memory()` next to a *descriptor tree* of the value (inline sizes
//! from `size_of`, owned heap capacities as constructed). The expected footprint is computed from
//! the descriptor by the TLA+ specification (MemEst.tla), not here.

use crate::common::*;
use cachelito_core::MemoryEstimator;
use rand::rngs::StdRng;
use rand::{Rng, SeedableRng};
use serde_json::{json, Value};
use std::mem::size_of;

fn mk_string(rng: &mut StdRng) -> (String, Value) {
    let len = rng.gen_range(0..40usize);
    let extra = if rng.gen_bool(0.5) { rng.gen_range(0..64usize) } else { 0 };
    let mut s = String::with_capacity(len + extra);
    for _ in 0..len {
        s.push('x');
    }
    let d = json!({"t": "string", "inline": size_of::<String>(), "cap": s.capacity()});
    (s, d)
}

fn mk_vec_prim<T: Default + Clone>(rng: &mut StdRng) -> (Vec<T>, Value) {
    let len = rng.gen_range(0..20usize);
    let extra = if rng.gen_bool(0.5) { rng.gen_range(0..32usize) } else { 0 };
    let mut v: Vec<T> = Vec::with_capacity(len + extra);
    for _ in 0..len {
        v.push(T::default());
    }
    let items: Vec<Value> = (0..len).map(|_| json!({"t": "prim", "inline": size_of::<T>()})).collect();
    let d = json!({"t": "vec", "inline": size_of::<Vec<T>>(), "elem": size_of::<T>(), "cap": v.capacity(), "items": items});
    (v, d)
}

fn prim(n: usize) -> Value {
    json!({"t": "prim", "inline": n})
}

fn emit<T: MemoryEstimator>(w: &mut TraceWriter, ty: &str, v: &T, d: Value) {
    w.emit(&json!({"ev": "mem", "ty": ty, "est": v.estimate_memory(), "desc": d}));
}

/// `memest --seed S --n N --out <ndjson>`
pub fn cmd_memest(args: &[String]) -> i32 {
    let seed: u64 = arg_num(args, "--seed", 1);
    let n: usize = arg_num(args, "--n", 200);
    let mut rng = StdRng::seed_from_u64(seed);
    let mut w = TraceWriter::create(arg(args, "--out").expect("--out"));
    for _ in 0..n {
        // String
        let (s, ds) = mk_string(&mut rng);
        emit(&mut w, "String", &s, ds.clone());
        // Vec<u8>, Vec<u32>, Vec<u16>
        let (v8, dv8) = mk_vec_prim::<u8>(&mut rng);
        emit(&mut w, "Vec<u8>", &v8, dv8.clone());
        let (v32, dv32) = mk_vec_prim::<u32>(&mut rng);
        emit(&mut w, "Vec<u32>", &v32, dv32.clone());
        // Vec<String>
        {
            let len = rng.gen_range(0..5usize);
            let mut v: Vec<String> = Vec::with_capacity(len + rng.gen_range(0..4usize));
            let mut items = Vec::new();
            for _ in 0..len {
                let (s, d) = mk_string(&mut rng);
                v.push(s);
                items.push(d);
            }
            let d = json!({"t": "vec", "inline": size_of::<Vec<String>>(), "elem": size_of::<String>(), "cap": v.capacity(), "items": items});
            emit(&mut w, "Vec<String>", &v, d.clone());
            // Result<Vec<String>, String>
            let r: Result<Vec<String>, String> = Ok(v);
            emit(&mut w, "Result<Vec<String>,String>", &r,
                 json!({"t": "result", "inline": size_of::<Result<Vec<String>, String>>(), "v": d}));
        }
        // Option<String>
        {
            let some = rng.gen_bool(0.7);
            let (s, d) = mk_string(&mut rng);
            let o: Option<String> = if some { Some(s) } else { None };
            emit(&mut w, "Option<String>", &o,
                 json!({"t": "option", "inline": size_of::<Option<String>>(), "some": some, "v": if some { d } else { prim(0) }}));
        }
        // Result<String, String>
        {
            let ok = rng.gen_bool(0.6);
            let (s, d) = mk_string(&mut rng);
            let r: Result<String, String> = if ok { Ok(s) } else { Err(s) };
            emit(&mut w, "Result<String,String>", &r,
                 json!({"t": "result", "inline": size_of::<Result<String, String>>(), "v": d}));
        }
        // (String, Vec<u8>)
        {
            let (s, d1) = mk_string(&mut rng);
            let (v, d2) = mk_vec_prim::<u8>(&mut rng);
            let t = (s, v);
            let d = json!({"t": "tuple", "inline": size_of::<(String, Vec<u8>)>(), "fields": [d1, d2]});
            emit(&mut w, "(String,Vec<u8>)", &t, d.clone());
            // Box<(String, Vec<u8>)>
            let b = Box::new(t);
            emit(&mut w, "Box<(String,Vec<u8>)>", &b,
                 json!({"t": "box", "inline": size_of::<Box<(String, Vec<u8>)>>(), "v": d}));
        }
        // (String, String, Vec<u32>)
        {
            let (a, d1) = mk_string(&mut rng);
            let (b, d2) = mk_string(&mut rng);
            let (c, d3) = mk_vec_prim::<u32>(&mut rng);
            let t = (a, b, c);
            emit(&mut w, "(String,String,Vec<u32>)", &t,
                 json!({"t": "tuple", "inline": size_of::<(String, String, Vec<u32>)>(), "fields": [d1, d2, d3]}));
        }
        // Box<String>
        {
            let (s, d) = mk_string(&mut rng);
            let b = Box::new(s);
            emit(&mut w, "Box<String>", &b, json!({"t": "box", "inline": size_of::<Box<String>>(), "v": d}));
        }
        // Option<Box<Vec<u8>>>
        {
            let some = rng.gen_bool(0.7);
            let (v, d) = mk_vec_prim::<u8>(&mut rng);
            let o: Option<Box<Vec<u8>>> = if some { Some(Box::new(v)) } else { None };
            let bd = json!({"t": "box", "inline": size_of::<Box<Vec<u8>>>(), "v": d});
            emit(&mut w, "Option<Box<Vec<u8>>>", &o,
                 json!({"t": "option", "inline": size_of::<Option<Box<Vec<u8>>>>(), "some": some, "v": if some { bd } else { prim(0) }}));
        }
        // Vec<Option<String>>
        {
            let len = rng.gen_range(0..5usize);
            let mut v: Vec<Option<String>> = Vec::with_capacity(len + rng.gen_range(0..3usize));
            let mut items = Vec::new();
            for _ in 0..len {
                let some = rng.gen_bool(0.6);
                let (s, d) = mk_string(&mut rng);
                v.push(if some { Some(s) } else { None });
                items.push(json!({"t": "option", "inline": size_of::<Option<String>>(), "some": some, "v": if some { d } else { prim(0) }}));
            }
            emit(&mut w, "Vec<Option<String>>", &v,
                 json!({"t": "vec", "inline": size_of::<Vec<Option<String>>>(), "elem": size_of::<Option<String>>(), "cap": v.capacity(), "items": items}));
        }
        // (Option<String>, Box<String>) nested tuple of wrappers
        {
            let some = rng.gen_bool(0.5);
            let (s1, d1) = mk_string(&mut rng);
            let (s2, d2) = mk_string(&mut rng);
            let t: (Option<String>, Box<String>) = (if some { Some(s1) } else { None }, Box::new(s2));
            emit(&mut w, "(Option<String>,Box<String>)", &t,
                 json!({"t": "tuple", "inline": size_of::<(Option<String>, Box<String>)>(), "fields": [
                     {"t": "option", "inline": size_of::<Option<String>>(), "some": some, "v": if some { d1 } else { prim(0) }},
                     {"t": "box", "inline": size_of::<Box<String>>(), "v": d2}]}));
        }
        // primitives
        emit(&mut w, "u64", &7u64, prim(8));
        emit(&mut w, "i32", &7i32, prim(4));
    }
    let lines = w.lines;
    w.finish();
    println!("{{\"traces\":1,\"events\":{}}}", lines);
    0
}
