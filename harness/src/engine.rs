//! Core-level driver: the harness owns the containers and constructs GlobalCache /
//! ThreadLocalCache / AsyncGlobalCache with any configuration at run time.

use crate::common::*;
use cachelito_core::{AsyncGlobalCache, CacheEntry, CacheStats, GlobalCache, ThreadLocalCache};
use dashmap::DashMap;
use once_cell::sync::Lazy;
use parking_lot::{Mutex, RwLock};
use rand::rngs::StdRng;
use rand::{Rng, SeedableRng};
use serde::Deserialize;
use serde_json::{json, Value};
use std::cell::RefCell;
use std::collections::{BTreeMap, HashMap, VecDeque};
use std::io::{BufRead, BufReader};
use std::panic::{catch_unwind, AssertUnwindSafe};
use std::time::{Duration, Instant};

static S_MAP: Lazy<RwLock<HashMap<String, CacheEntry<Val>>>> =
    Lazy::new(|| RwLock::new(HashMap::new()));
static S_ORDER: Lazy<Mutex<VecDeque<String>>> = Lazy::new(|| Mutex::new(VecDeque::new()));
static S_STATS: Lazy<CacheStats> = Lazy::new(CacheStats::new);

thread_local! {
    static T_MAP: RefCell<HashMap<String, CacheEntry<Val>>> = RefCell::new(HashMap::new());
    static T_ORDER: RefCell<VecDeque<String>> = RefCell::new(VecDeque::new());
}

/// One engine under test, behind a uniform interface.
pub enum Eng<'a> {
    Sync(GlobalCache<Val>),
    Thread(ThreadLocalCache<Val>),
    Async {
        cache: AsyncGlobalCache<'a, Val>,
        map: &'a DashMap<String, (Val, u64, u64)>,
        order: &'a Mutex<VecDeque<String>>,
        stats: &'a CacheStats,
    },
}

pub struct AsyncParts {
    pub map: DashMap<String, (Val, u64, u64)>,
    pub order: Mutex<VecDeque<String>>,
    pub stats: CacheStats,
}

impl AsyncParts {
    pub fn new() -> Self {
        AsyncParts {
            map: DashMap::new(),
            order: Mutex::new(VecDeque::new()),
            stats: CacheStats::new(),
        }
    }
}

impl<'a> Eng<'a> {
    pub fn new(cfg: &Cfg, parts: &'a AsyncParts) -> Eng<'a> {
        match cfg.flavour.as_str() {
            "sync" => {
                S_MAP.write().clear();
                S_ORDER.lock().clear();
                S_STATS.reset();
                Eng::Sync(GlobalCache::new(
                    &S_MAP,
                    &S_ORDER,
                    cfg.limit_opt(),
                    cfg.maxmem_opt(),
                    cfg.policy_enum(),
                    cfg.ttl_opt(),
                    cfg.weight_opt(),
                    &S_STATS,
                ))
            }
            "thread" => {
                T_MAP.with(|m| m.borrow_mut().clear());
                T_ORDER.with(|o| o.borrow_mut().clear());
                Eng::Thread(ThreadLocalCache::new(
                    &T_MAP,
                    &T_ORDER,
                    cfg.limit_opt(),
                    cfg.maxmem_opt(),
                    cfg.policy_enum(),
                    cfg.ttl_opt(),
                    cfg.weight_opt(),
                ))
            }
            "async" => Eng::Async {
                cache: AsyncGlobalCache::new(
                    &parts.map,
                    &parts.order,
                    cfg.limit_opt(),
                    cfg.maxmem_opt(),
                    cfg.policy_enum(),
                    cfg.ttl_opt(),
                    cfg.weight_opt(),
                    &parts.stats,
                ),
                map: &parts.map,
                order: &parts.order,
                stats: &parts.stats,
            },
            f => panic!("unknown flavour {}", f),
        }
    }

    pub fn get(&self, k: &str) -> Option<Val> {
        match self {
            Eng::Sync(c) => c.get(k),
            Eng::Thread(c) => c.get(k),
            Eng::Async { cache, .. } => cache.get(k),
        }
    }

    pub fn insert(&self, k: &str, v: Val, mem: bool) {
        match (self, mem) {
            (Eng::Sync(c), false) => c.insert(k, v),
            (Eng::Sync(c), true) => c.insert_with_memory(k, v),
            (Eng::Thread(c), false) => c.insert(k, v),
            (Eng::Thread(c), true) => c.insert_with_memory(k, v),
            (Eng::Async { cache, .. }, false) => cache.insert(k, v),
            (Eng::Async { cache, .. }, true) => cache.insert_with_memory(k, v),
        }
    }

    /// Virtual time: make every entry `d` seconds older by re-stamping its birth.
    pub fn tick(&self, d: u64) {
        match self {
            Eng::Sync(_) => {
                for e in S_MAP.write().values_mut() {
                    e.inserted_at = e.inserted_at.checked_sub(Duration::from_secs(d)).unwrap();
                }
            }
            Eng::Thread(_) => T_MAP.with(|m| {
                for e in m.borrow_mut().values_mut() {
                    e.inserted_at = e.inserted_at.checked_sub(Duration::from_secs(d)).unwrap();
                }
            }),
            Eng::Async { map, .. } => {
                for mut e in map.iter_mut() {
                    e.value_mut().1 -= d;
                }
            }
        }
    }

    /// Put the engine into a given (previously observed) state; statistics restart at zero.
    pub fn inject(&self, st: &St) {
        let now_i = Instant::now();
        let now_s = unix_now();
        match self {
            Eng::Sync(_) => {
                let mut m = S_MAP.write();
                m.clear();
                for (k, e) in &st.store {
                    m.insert(
                        k.clone(),
                        CacheEntry {
                            value: Val { ver: e.val, size: e.size },
                            inserted_at: now_i.checked_sub(Duration::from_secs(e.age)).unwrap(),
                            frequency: e.hits,
                        },
                    );
                }
                drop(m);
                let mut o = S_ORDER.lock();
                o.clear();
                o.extend(st.order.iter().cloned());
                S_STATS.reset();
            }
            Eng::Thread(c) => {
                T_MAP.with(|m| {
                    let mut m = m.borrow_mut();
                    m.clear();
                    for (k, e) in &st.store {
                        m.insert(
                            k.clone(),
                            CacheEntry {
                                value: Val { ver: e.val, size: e.size },
                                inserted_at: now_i.checked_sub(Duration::from_secs(e.age)).unwrap(),
                                frequency: e.hits,
                            },
                        );
                    }
                });
                T_ORDER.with(|o| {
                    let mut o = o.borrow_mut();
                    o.clear();
                    o.extend(st.order.iter().cloned());
                });
                c.stats.reset();
            }
            Eng::Async { map, order, stats, .. } => {
                map.clear();
                for (k, e) in &st.store {
                    map.insert(k.clone(), (Val { ver: e.val, size: e.size }, now_s - e.age, e.hits));
                }
                let mut o = order.lock();
                o.clear();
                o.extend(st.order.iter().cloned());
                stats.reset();
            }
        }
    }

    pub fn snapshot(&self) -> St {
        match self {
            Eng::Sync(c) => {
                let m = S_MAP.read();
                let store = m
                    .iter()
                    .map(|(k, e)| {
                        (
                            k.clone(),
                            Ent {
                                val: e.value.ver,
                                hits: e.frequency,
                                age: e.inserted_at.elapsed().as_secs(),
                                size: e.value.size,
                            },
                        )
                    })
                    .collect::<BTreeMap<_, _>>();
                St {
                    store,
                    order: S_ORDER.lock().iter().cloned().collect(),
                    hits_s: c.stats.hits(),
                    miss_s: c.stats.misses(),
                }
            }
            Eng::Thread(c) => {
                let store = T_MAP.with(|m| {
                    m.borrow()
                        .iter()
                        .map(|(k, e)| {
                            (
                                k.clone(),
                                Ent {
                                    val: e.value.ver,
                                    hits: e.frequency,
                                    age: e.inserted_at.elapsed().as_secs(),
                                    size: e.value.size,
                                },
                            )
                        })
                        .collect::<BTreeMap<_, _>>()
                });
                St {
                    store,
                    order: T_ORDER.with(|o| o.borrow().iter().cloned().collect()),
                    hits_s: c.stats.hits(),
                    miss_s: c.stats.misses(),
                }
            }
            Eng::Async {
                map, order, stats, ..
            } => {
                let now = unix_now();
                let store = map
                    .iter()
                    .map(|e| {
                        (
                            e.key().clone(),
                            Ent {
                                val: e.value().0.ver,
                                hits: e.value().2,
                                age: now.saturating_sub(e.value().1),
                                size: e.value().0.size,
                            },
                        )
                    })
                    .collect::<BTreeMap<_, _>>();
                St {
                    store,
                    order: order.lock().iter().cloned().collect(),
                    hits_s: stats.hits(),
                    miss_s: stats.misses(),
                }
            }
        }
    }
}

#[derive(Clone, Debug, Deserialize)]
pub struct Op {
    pub op: String,
    #[serde(default)]
    pub k: String,
    #[serde(default)]
    pub size: usize,
    #[serde(default)]
    pub mem: bool,
    #[serde(default)]
    pub d: u64,
}

#[derive(Clone, Debug, Deserialize)]
pub struct Script {
    #[serde(default)]
    pub id: i64,
    pub cfg: Cfg,
    pub ops: Vec<Op>,
}

pub fn base_event(op: &str) -> serde_json::Map<String, Value> {
    let mut m = serde_json::Map::new();
    m.insert("ev".into(), json!(op));
    m.insert("n".into(), json!("c"));
    m.insert("k".into(), json!(""));
    m.insert("v".into(), json!(0));
    m.insert("size".into(), json!(0));
    m.insert("mem".into(), json!(false));
    m.insert("ret".into(), json!(-1));
    m.insert("d".into(), json!(0));
    m.insert("panic".into(), json!(false));
    m
}

/// Run one scripted history against the real engine; returns the events, or None if the run
/// straddled a wall-clock second / took too long (virtual time would be inexact): caller retries.
pub fn run_script(s: &Script) -> Option<Vec<Value>> {
    let parts = AsyncParts::new();
    let t0 = Instant::now();
    let sec0 = unix_now();
    let eng = Eng::new(&s.cfg, &parts);
    let mut out = Vec::with_capacity(s.ops.len() + 1);
    let mut ver: i64 = 0;
    {
        let mut m = base_event("reset");
        m.insert("trace".into(), json!(s.id));
        m.insert("cfgs".into(), json!({ "c": s.cfg }));
        m.insert(
            "metas".into(),
            json!({"c": {"fixture": "c", "cacheName": "c", "kind": s.cfg.flavour, "isResult": false,
                         "hasCif": false, "hasInv": false, "stats": true, "tags": [], "events": [],
                         "deps": [], "warm": true}}),
        );
        m.insert("pmetas".into(), json!({}));
        m.insert("sts".into(), sts1("c", &eng.snapshot()));
        out.push(Value::Object(m));
    }
    for op in &s.ops {
        let mut m = base_event(&op.op);
        match op.op.as_str() {
            "get" => {
                let r = catch_unwind(AssertUnwindSafe(|| eng.get(&op.k)));
                m.insert("k".into(), json!(op.k));
                match r {
                    Ok(v) => {
                        m.insert("ret".into(), json!(v.map(|x| x.ver).unwrap_or(-1)));
                    }
                    Err(e) => {
                        m.insert("panic".into(), json!(true));
                        m.insert("panic_msg".into(), json!(panic_msg(&e)));
                    }
                }
            }
            "ins" => {
                ver += 1;
                let v = Val {
                    ver,
                    size: op.size,
                };
                let r = catch_unwind(AssertUnwindSafe(|| eng.insert(&op.k, v, op.mem)));
                m.insert("k".into(), json!(op.k));
                m.insert("v".into(), json!(ver));
                m.insert("size".into(), json!(op.size));
                m.insert("mem".into(), json!(op.mem));
                if let Err(e) = r {
                    m.insert("panic".into(), json!(true));
                    m.insert("panic_msg".into(), json!(panic_msg(&e)));
                }
            }
            "tick" => {
                eng.tick(op.d);
                m.insert("d".into(), json!(op.d));
            }
            other => panic!("unknown op {}", other),
        }
        let panicked = m.get("panic") == Some(&json!(true));
        m.insert("sts".into(), sts1("c", &eng.snapshot()));
        out.push(Value::Object(m));
        if panicked {
            break; // a panicked operation ends the history (the spec does the same)
        }
    }
    // virtual time (and the ages shown in the projected state) is exact only inside one wall-clock second
    if unix_now() != sec0 || t0.elapsed() > Duration::from_millis(900) {
        return None;
    }
    Some(out)
}

pub fn run_script_retry(s: &Script) -> Vec<Value> {
    for attempt in 0..60 {
        if attempt > 0 {
            align_to_second();
        }
        if let Some(v) = run_script(s) {
            return v;
        }
    }
    panic!("could not run a trace within one wall-clock second after 60 attempts");
}

/// `engine --script <jsonl> --out <ndjson>`
pub fn cmd_script(args: &[String]) -> i32 {
    let script = arg(args, "--script").expect("--script");
    let out = arg(args, "--out").expect("--out");
    let mut w = TraceWriter::create(out);
    let f = BufReader::new(std::fs::File::open(script).expect("open script"));
    let mut n = 0;
    for line in f.lines() {
        let line = line.unwrap();
        if line.trim().is_empty() {
            continue;
        }
        let s: Script = serde_json::from_str(&line).expect("script line");
        w.emit_all(&run_script_retry(&s));
        n += 1;
    }
    let lines = w.lines;
    w.finish();
    println!("{{\"traces\":{},\"events\":{}}}", n, lines);
    0
}

fn pick<'a, T>(rng: &mut StdRng, xs: &'a [T]) -> &'a T {
    &xs[rng.gen_range(0..xs.len())]
}

/// Random configuration within the bounds the specification's score table covers.
pub fn random_cfg(rng: &mut StdRng, flavours: &[&str], policies: &[&str], weights: &[&str]) -> Cfg {
    let policy = pick(rng, policies).to_string();
    let flavour = pick(rng, flavours).to_string();
    let limit = *pick(rng, &[0usize, 1, 2, 3, 4, 6]);
    let ttl = if policy == "tlru" {
        *pick(rng, &[0u64, 2, 3, 3, 4])
    } else {
        *pick(rng, &[0u64, 0, 1, 2, 3])
    };
    let mut maxmem = *pick(rng, &[0usize, 0, 4, 7, 10]);
    if limit == 0 && maxmem == 0 && rng.gen_bool(0.7) {
        maxmem = 7;
    }
    let w = if policy == "tlru" {
        pick(rng, weights).to_string()
    } else {
        "none".to_string()
    };
    Cfg {
        flavour,
        policy,
        limit,
        ttl,
        maxmem,
        w,
    }
}

pub fn random_script(rng: &mut StdRng, id: i64, cfg: Cfg, len: usize, nkeys: usize) -> Script {
    let keys: Vec<String> = (1..=nkeys).map(|i| format!("k{}", i)).collect();
    let mut ops = Vec::with_capacity(len);
    // cap lookups per key so that ghost hit counters stay inside the score table
    let mut gets: HashMap<String, u32> = HashMap::new();
    // unbounded caches: keep the number of resident keys inside the table's rank range
    let small = cfg.limit == 0;
    for _ in 0..len {
        let r: f64 = rng.gen();
        if r < 0.45 {
            let kk = if small {
                &keys[..keys.len().min(6)]
            } else {
                &keys[..]
            };
            let k = pick(rng, kk).clone();
            let size = if cfg.maxmem == 0 {
                1
            } else if rng.gen_bool(0.07) {
                cfg.maxmem + 1 + rng.gen_range(0..2)
            } else {
                rng.gen_range(1..=(cfg.maxmem / 2).max(1))
            };
            gets.insert(k.clone(), 0);
            ops.push(Op {
                op: "ins".into(),
                k,
                size,
                mem: cfg.maxmem != 0, // macro output never mixes insert / insert_with_memory
                d: 0,
            });
        } else if r < 0.9 || cfg.ttl == 0 {
            let k = pick(rng, &keys).clone();
            let c = gets.entry(k.clone()).or_insert(0);
            if *c >= 20 {
                continue;
            }
            *c += 1;
            ops.push(Op {
                op: "get".into(),
                k,
                size: 0,
                mem: false,
                d: 0,
            });
        } else {
            ops.push(Op {
                op: "tick".into(),
                k: String::new(),
                size: 0,
                mem: false,
                d: 1,
            });
        }
    }
    Script { id, cfg, ops }
}

/// `engine-rand --seed S --traces N --len L --keys K --out <ndjson> [--flavours a,b] [--policies x,y] [--weights w,..]`
pub fn cmd_random(args: &[String]) -> i32 {
    let seed: u64 = arg_num(args, "--seed", 1);
    let traces: usize = arg_num(args, "--traces", 100);
    let len: usize = arg_num(args, "--len", 60);
    let nkeys: usize = arg_num(args, "--keys", 8);
    let out = arg(args, "--out").expect("--out");
    let fl = arg_or(args, "--flavours", "sync,thread,async");
    let po = arg_or(args, "--policies", "fifo,lru,lfu,arc,random,tlru");
    let we = arg_or(args, "--weights", "none,0.1,0.3,1,1.5,3");
    let flavours: Vec<&str> = fl.split(',').collect();
    let policies: Vec<&str> = po.split(',').collect();
    let weights: Vec<&str> = we.split(',').collect();
    let mut rng = StdRng::seed_from_u64(seed);
    let mut w = TraceWriter::create(out);
    for i in 0..traces {
        let cfg = random_cfg(&mut rng, &flavours, &policies, &weights);
        let s = random_script(&mut rng, i as i64, cfg, len, nkeys);
        w.emit_all(&run_script_retry(&s));
    }
    let lines = w.lines;
    w.finish();
    println!("{{\"traces\":{},\"events\":{}}}", traces, lines);
    0
}
