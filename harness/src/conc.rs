//! Concurrent driver: short programs of cached calls / invalidations / statistics queries run as
//! managed threads under the cooperative scheduler of the parking_lot shim. Every lock acquisition
//! in (unmodified) cachelito-core and in the macro-generated code is a scheduling point, so an
//! execution is determined by its sequence of grant choices: schedules are enumerated (depth-first
//! with a preemption bound), sampled at random, or replayed; deadlock = "some thread unfinished,
//! nothing grantable" on the REAL code.
//!
//! Per schedule one `quiesce` line is logged (operation results, grants, full state of every cache
//! once all threads have returned), followed by the events of a sequential probe history.

use crate::common::*;
use crate::macrodrv::*;
use crate::macrorun::*;
use cachelito_core::verif;
use parking_lot::sched::{self, Outcome, Status, View, Want};
use rand::rngs::StdRng;
use rand::{Rng, SeedableRng};
use serde::Deserialize;
use serde_json::{json, Map, Value};
use std::collections::{BTreeMap, HashMap};
use std::sync::{Arc, Mutex as StdMutex};
use std::time::Duration;

#[derive(Clone, Debug, Deserialize)]
pub struct Program {
    #[serde(default)]
    pub id: i64,
    pub threads: Vec<Vec<MOp>>,
}

#[derive(Clone, Debug, Deserialize)]
pub struct Strategy {
    pub kind: String, // dfs | random | replay
    #[serde(default)]
    pub max_schedules: usize,
    #[serde(default = "two")]
    pub preempt: usize,
    #[serde(default)]
    pub seed: u64,
    #[serde(default)]
    pub choices: Vec<usize>,
    /// kind "dfs1": run exactly one schedule, the one this DFS stack (allowed-alternative indices)
    /// leads to, and report the next stack -- the driver restarts the process for every schedule
    /// (cold-start exploration: `Once` registrations cannot be undone inside a process)
    #[serde(default)]
    pub stack: Vec<usize>,
}
fn two() -> usize {
    2
}

#[derive(Clone, Debug, Deserialize)]
pub struct ConcJob {
    pub fixtures: Vec<String>,
    pub programs: Vec<Program>,
    pub strategy: Strategy,
    #[serde(default)]
    pub probe: Vec<MOp>,
    #[serde(default = "hang_default")]
    pub hang_ms: u64,
    /// age every entry by this many seconds before the concurrent phase starts (prefix ops run first)
    #[serde(default)]
    pub prefix: Vec<MOp>,
    /// echoed in every record so that a record can be traced back to its job
    #[serde(default)]
    pub tag: String,
    /// log at most this many distinct outcomes per program (0 = all)
    #[serde(default)]
    pub max_log: usize,
    /// fixtures that are NOT warmed up: their first call (all `Once` registrations) happens inside the
    /// concurrent section
    #[serde(default)]
    pub nowarm: Vec<String>,
}
fn hang_default() -> u64 {
    20000
}

#[derive(Clone, Debug)]
struct OpResult {
    t: usize,
    i: usize,
    op: String,
    f: String,
    k: String,
    exec: bool,
    ret: i64,
    bret: i64,
    b: usize,
    e: usize,
    panic: bool,
    extra: Value,
}

fn run_op(fixtures: &HashMap<String, Fixture>, op: &MOp, t: usize, i: usize, out: &Arc<StdMutex<Vec<OpResult>>>) {
    let b = sched::steps();
    let mut r = OpResult {
        t,
        i,
        op: op.op.clone(),
        f: op.f.clone(),
        k: String::new(),
        exec: false,
        ret: -1,
        bret: -1,
        b,
        e: 0,
        panic: false,
        extra: json!({}),
    };
    let res = std::panic::catch_unwind(std::panic::AssertUnwindSafe(|| match op.op.as_str() {
        "call" => {
            let f = &fixtures[&op.f];
            set_script(CallScript {
                ok: op.ok,
                cif: op.cif,
                inv: op.inv,
                size: op.size.max(32),
            });
            let o = if f.kind == "async" {
                block_on(crate::fixtures_gen::call_async(&f.name, op.k).expect("fixture"))
            } else {
                crate::fixtures_gen::call_sync(&f.name, op.k).expect("fixture")
            };
            let (executed, body_ret) = take_exec();
            (f.key_of(op.k), executed, o.val, body_ret, json!({"ok": o.ok}))
        }
        "inv_with" => {
            let sel: Vec<String> = serde_json::from_value(op.sel.clone()).unwrap_or_default();
            let found = cachelito_core::invalidate_with(&op.x, |k| sel.iter().any(|s| s == k));
            (String::new(), false, -1, -1, json!({"found": found, "x": op.x}))
        }
        "inv_all_with" => {
            let sel: BTreeMap<String, Vec<String>> = serde_json::from_value(op.sel.clone()).unwrap_or_default();
            let count = cachelito_core::invalidate_all_with(|c, k| {
                sel.get(c).map(|v| v.iter().any(|s| s == k)).unwrap_or(false)
            });
            (String::new(), false, -1, -1, json!({"count": count}))
        }
        "inv_tag" => (String::new(), false, -1, -1, json!({"count": cachelito_core::invalidate_by_tag(&op.x), "x": op.x})),
        "inv_event" => (String::new(), false, -1, -1, json!({"count": cachelito_core::invalidate_by_event(&op.x), "x": op.x})),
        "inv_dep" => (String::new(), false, -1, -1, json!({"count": cachelito_core::invalidate_by_dependency(&op.x), "x": op.x})),
        "inv_name" => (String::new(), false, -1, -1, json!({"found": cachelito_core::invalidate_cache(&op.x), "x": op.x})),
        "stats_get" => {
            let s = cachelito_core::stats_registry::get(&op.x);
            (String::new(), false, -1, -1,
             json!({"x": op.x, "hits": s.as_ref().map(|s| s.hits()).unwrap_or(0), "misses": s.as_ref().map(|s| s.misses()).unwrap_or(0)}))
        }
        "stats_reset" => (String::new(), false, -1, -1, json!({"found": cachelito_core::stats_registry::reset(&op.x), "x": op.x})),
        other => panic!("unknown concurrent op {}", other),
    }));
    match res {
        Ok((k, exec, ret, bret, extra)) => {
            r.k = k;
            r.exec = exec;
            r.ret = ret;
            r.bret = bret;
            r.extra = extra;
        }
        Err(e) => {
            r.panic = true;
            r.extra = json!({"panic_msg": panic_msg(&e)});
        }
    }
    r.e = sched::steps();
    out.lock().unwrap().push(r);
}

fn lock_names(fx: &[&Fixture]) -> HashMap<usize, String> {
    let mut m = HashMap::new();
    for f in fx {
        if let Some(i) = verif::inspector(&f.cache_name) {
            let (a, b) = i.lock_addrs();
            if a != 0 {
                m.insert(a, format!("map:{}", f.name));
            }
            if b != 0 {
                m.insert(b, format!("order:{}", f.name));
            }
        }
    }
    for (n, a) in verif::registry_lock_addrs() {
        m.insert(a, n.to_string());
    }
    m
}

struct Explorer {
    /// DFS stack: (choice taken, number of enabled alternatives, allowed alternatives mask by bound)
    stack: Vec<(usize, usize)>,
}

/// One run of a program under a chooser; returns the run result plus the trace of grants.
fn run_once(
    runner: &Runner,
    job: &ConcJob,
    prog: &Program,
    names: &HashMap<usize, String>,
    chooser: &mut dyn FnMut(&View) -> usize,
) -> (sched::RunResult, Vec<OpResult>, Vec<Value>, Vec<Value>) {
    let results: Arc<StdMutex<Vec<OpResult>>> = Arc::new(StdMutex::new(Vec::new()));
    let fixtures = Arc::new(runner.fixtures.clone());
    let mut bodies: Vec<Box<dyn FnOnce() + Send + 'static>> = Vec::new();
    for (ti, ops) in prog.threads.iter().enumerate() {
        let ops = ops.clone();
        let results = results.clone();
        let fixtures = fixtures.clone();
        bodies.push(Box::new(move || {
            std::panic::set_hook(Box::new(|_| {}));
            for (i, op) in ops.iter().enumerate() {
                run_op(&fixtures, op, ti + 1, i, &results);
            }
        }));
    }
    let mut grants: Vec<Value> = Vec::new();
    let mut blocked: Vec<Value> = Vec::new();
    let mut aux: HashMap<usize, String> = HashMap::new();
    let mut wrapped = |v: &View| -> usize {
        if v.enabled.is_empty() {
            for (i, s) in v.status.iter().enumerate() {
                if let Status::Waiting(w) = s {
                    let a = w.addr();
                    let n = names.get(&a).cloned().unwrap_or_else(|| format!("aux@{:x}", a));
                    let held: Vec<String> = v.held[i]
                        .iter()
                        .map(|(a, m)| format!("{}:{}", names.get(a).cloned().unwrap_or_else(|| format!("aux@{:x}", a)), m))
                        .collect();
                    blocked.push(json!({"t": i + 1, "wants": n, "mode": w.mode(), "holds": held}));
                }
            }
            return 0;
        }
        chooser(v)
    };
    let rr = sched::run(bodies, &mut wrapped, Duration::from_millis(job.hang_ms));
    for (gi, (t, w)) in rr.grants.iter().enumerate() {
        if let Want::Yield(tag) = w {
            grants.push(json!([t + 1, if *tag == 77 { "clone" } else { "start" }, "y"]));
        } else {
            let a = w.addr();
            let n = names.get(&a).cloned().unwrap_or_else(|| {
                if let Some(tag) = sched::tag_of(a) {
                    return tag.to_string();
                }
                let l = aux.len() + 1;
                aux.entry(a).or_insert_with(|| format!("aux{}", l)).clone()
            });
            // registry locks the thread already held (the registry protocol is flat: always none)
            let held_reg: Vec<String> = rr.grants_held[gi]
                .iter()
                .filter_map(|(a, _)| names.get(a).filter(|n| n.starts_with("reg.")).cloned())
                .collect();
            if n.starts_with("reg.") {
                grants.push(json!([t + 1, n, w.mode(), held_reg]));
            } else {
                grants.push(json!([t + 1, n, w.mode()]));
            }
        }
    }
    let res = results.lock().unwrap().clone();
    (rr, res, grants, blocked)
}

fn ops_json(res: &[OpResult]) -> Value {
    let mut v: Vec<&OpResult> = res.iter().collect();
    v.sort_by_key(|r| (r.t, r.i));
    json!(v
        .iter()
        .map(|r| json!({"t": r.t, "i": r.i, "op": r.op, "f": r.f, "k": r.k, "exec": r.exec, "ret": r.ret,
                        "bret": r.bret, "b": r.b, "e": r.e, "panic": r.panic, "extra": r.extra}))
        .collect::<Vec<_>>())
}

/// `conc --job <json> --out <ndjson>`
pub fn cmd_conc(args: &[String]) -> i32 {
    let job: ConcJob = serde_json::from_str(&std::fs::read_to_string(arg(args, "--job").expect("--job")).unwrap())
        .expect("conc job");
    let out = arg(args, "--out").expect("--out");
    let log_all = arg(args, "--log-all").is_some();
    let runner = Runner::new(2);
    let mut w = TraceWriter::create(out);
    let mut schedules = 0usize;
    let mut logged = 0usize;
    let mut finished = 0usize;
    let mut distinct_finals: std::collections::HashSet<String> = std::collections::HashSet::new();
    let mut rng = StdRng::seed_from_u64(job.strategy.seed);
    let mut verdict = "ok".to_string();
    let mut next_stack: Option<Vec<usize>> = None;
    'programs: for prog in &job.programs {
        let script = MScript {
            id: prog.id,
            fixtures: job.fixtures.clone(),
            threads: 1,
            nowarm: job.nowarm.clone(),
            ops: vec![],
        };
        let mut ex = Explorer { stack: job.strategy.stack.iter().map(|c| (*c, 0usize)).collect() };
        let mut runs_here = 0usize;
        let mut logged_here = 0usize;
        loop {
            // fresh caches for every schedule
            let (threads, _line, mut cur) = runner.prepare(&script, "reset");
            let sec0 = unix_now();
            let _ = (&mut cur, threads);
            // sequential prefix (thread 0): pre-populate / age the caches before the threads start
            let prefix_results: Arc<StdMutex<Vec<OpResult>>> = Arc::new(StdMutex::new(Vec::new()));
            for (i, op) in job.prefix.iter().enumerate() {
                if op.op == "tick" {
                    for n in &job.fixtures {
                        if let Some(ins) = verif::inspector(&runner.fixtures[n].cache_name) {
                            ins.shift_age(op.d);
                        }
                    }
                } else {
                    run_op(&runner.fixtures, op, 0, i, &prefix_results);
                }
            }
            let fx: Vec<&Fixture> = job.fixtures.iter().map(|n| &runner.fixtures[n]).collect();
            let names = lock_names(&fx);
            let vis0: Vec<(String, String, bool)> =
                fx.iter().map(|f| (f.name.clone(), f.cache_name.clone(), false)).collect();
            let sts0 = snapshot_visible(&vis0);
            let ver0 = current_version();
            let mut depth = 0usize;
            let mut last_thread: Option<usize> = None;
            let mut preemptions = 0usize;
            let kind = job.strategy.kind.clone();
            let replay = job.strategy.choices.clone();
            let bound = job.strategy.preempt;
            let stack_snapshot = ex.stack.clone();
            let mut new_stack: Vec<(usize, usize)> = Vec::new();
            let mut chooser = |v: &View| -> usize {
                if kind == "replay" {
                    // recorded choices are indices into the enabled set
                    let c = replay.get(depth).cloned().unwrap_or(0) % v.enabled.len();
                    last_thread = Some(v.enabled[c]);
                    new_stack.push((c, v.enabled.len()));
                    depth += 1;
                    return c;
                }
                // alternatives at this point: continuing the running thread first; switching away
                // from a still-enabled thread is a preemption and only allowed within the bound
                let same = last_thread.and_then(|t| v.enabled.iter().position(|x| *x == t));
                let mut allowed: Vec<usize> = Vec::new();
                if let Some(p) = same {
                    allowed.push(p);
                }
                if same.is_none() || preemptions < bound || (kind != "dfs" && kind != "dfs1") {
                    for p in 0..v.enabled.len() {
                        if Some(p) != same {
                            allowed.push(p);
                        }
                    }
                }
                let n = allowed.len();
                let ci = match kind.as_str() {
                    "replay" => replay.get(depth).cloned().unwrap_or(0) % n,
                    "random" => {
                        if same.is_some() && rng.gen_bool(0.6) {
                            0
                        } else {
                            rng.gen_range(0..n)
                        }
                    }
                    _ => {
                        if depth < stack_snapshot.len() {
                            stack_snapshot[depth].0 % n
                        } else {
                            0
                        }
                    }
                };
                let c = allowed[ci];
                let chosen_thread = v.enabled[c];
                if let Some(t) = last_thread {
                    if t != chosen_thread && v.enabled.contains(&t) {
                        preemptions += 1;
                    }
                }
                new_stack.push((ci, n));
                last_thread = Some(chosen_thread);
                depth += 1;
                c
            };
            let (rr, mut res, grants, blocked) = run_once(&runner, &job, prog, &names, &mut chooser);
            res.extend(prefix_results.lock().unwrap().iter().cloned());
            schedules += 1;
            runs_here += 1;
            match rr.outcome {
                Outcome::Finished => {
                    finished += 1;
                    let mut cur2: Map<String, Value> = Map::new();
                    let vis: Vec<(String, String, bool)> =
                        fx.iter().map(|f| (f.name.clone(), f.cache_name.clone(), false)).collect();
                    if let Value::Object(m) = snapshot_visible(&vis) {
                        cur2 = m;
                    }
                    let mut sig: Vec<String> = res
                        .iter()
                        .map(|r| format!("{}.{}:{}:{}:{}", r.t, r.i, r.exec, r.ret, r.extra))
                        .collect();
                    sig.sort();
                    // keep schedules apart in which a body ran although an earlier call for the same
                    // arguments had already returned (what the C03 monitor looks for)
                    let late = res.iter().any(|x| {
                        x.op == "call" && x.exec && res.iter().any(|y| {
                            y.op == "call" && y.exec && (y.t, y.i) != (x.t, x.i) && y.f == x.f && y.k == x.k && y.e <= x.b
                        })
                    });
                    sig.push(format!("late={}", late));
                    let fin_key = format!("{}|{}|{:?}", prog.id, serde_json::to_string(&cur2).unwrap(), sig);
                    let is_new = distinct_finals.insert(fin_key);
                    let panicked = rr.status.iter().any(|s| matches!(s, Status::Panicked(_)))
                        || res.iter().any(|r| r.panic);
                    let bad_state = false;
                    let within = job.max_log == 0 || logged_here < job.max_log;
                    if ((is_new && within) || log_all || panicked) && !bad_state {
                        logged_here += 1;
                        let mut line = runner.header_line(&script, "quiesce", 1, &cur2);
                        if let Value::Object(m) = &mut line {
                            m.insert("prog".into(), json!(prog.id));
                            m.insert("job".into(), json!(job.tag));
                            m.insert("ops".into(), ops_json(&res));
                            m.insert("sts0".into(), sts0.clone());
                            m.insert("ver0".into(), json!(ver0));
                            m.insert(
                                "program".into(),
                                json!(prog.threads.iter().map(|t| t.iter().map(|o| json!({
                                    "op": o.op, "f": o.f, "k": o.k, "x": o.x, "ok": o.ok, "cif": o.cif, "size": o.size.max(32),
                                    "sel": if o.sel.is_null() { json!([]) } else { o.sel.clone() }})).collect::<Vec<_>>()).collect::<Vec<_>>()),
                            );
                            m.insert("grants".into(), json!(grants));
                            m.insert("nowarm".into(), json!(job.nowarm));
                            m.insert("choices".into(), json!(rr.choices));
                            m.insert("steps".into(), json!(rr.steps));
                            m.insert("panic".into(), json!(panicked));
                        }
                        let mut outv = vec![line];
                        if !job.probe.is_empty() && !panicked {
                            let ps = MScript { ops: job.probe.clone(), ..script.clone() };
                            runner.exec_ops(&ps, 1, &mut cur2, &mut outv);
                        }
                        if unix_now() != sec0 && job.strategy.kind == "dfs1" {
                            // cold-start mode: a repetition inside this process would not be cold any
                            // more; the driver starts the same schedule again in a fresh process
                            w.finish();
                            println!("{}", json!({"verdict": "ok", "retry": true, "schedules": 0, "finished": 0, "logged": 0,
                                                  "programs": 1, "traces": 0, "events": 0, "next_stack": job.strategy.stack}));
                            std::process::exit(0);
                        }
                        if unix_now() != sec0 {
                            // virtual time would be inexact: repeat this schedule
                            distinct_finals.clear();
                            schedules -= 1;
                            finished -= 1;
                            continue;
                        }
                        w.emit_all(&outv);
                        logged += 1;
                    }
                }
                Outcome::Deadlock | Outcome::Hang => {
                    verdict = if rr.outcome == Outcome::Deadlock { "deadlock".into() } else { "hang".into() };
                    w.emit(&json!({"ev": verdict, "prog": prog.id, "job": job.tag, "program": prog.threads.iter().map(|t| t.iter().map(|o| json!({"op": o.op, "f": o.f, "k": o.k, "x": o.x, "sel": if o.sel.is_null() { json!([]) } else { o.sel.clone() }})).collect::<Vec<_>>()).collect::<Vec<_>>(),
                                   "choices": rr.choices, "grants": grants, "blocked": blocked, "fixtures": job.fixtures}));
                    break 'programs;
                }
            }
            // next schedule
            match job.strategy.kind.as_str() {
                "replay" => break,
                "random" => {
                    if runs_here >= job.strategy.max_schedules.max(1) {
                        break;
                    }
                }
                _ => {
                    // dfs backtracking with a preemption bound: increment the deepest choice point
                    // that still has an untried alternative and whose prefix stays within the bound
                    let mut st = new_stack.clone();
                    loop {
                        match st.pop() {
                            None => {
                                st.clear();
                                break;
                            }
                            Some((c, n)) => {
                                if c + 1 < n {
                                    st.push((c + 1, n));
                                    break;
                                }
                            }
                        }
                    }
                    if job.strategy.kind == "dfs1" {
                        if !st.is_empty() {
                            next_stack = Some(st.iter().map(|x| x.0).collect());
                        }
                        break;
                    }
                    if st.is_empty() || runs_here >= job.strategy.max_schedules.max(1) {
                        break;
                    }
                    ex.stack = st;
                }
            }
        }
    }
    w.finish();
    println!(
        "{}",
        json!({"verdict": verdict, "schedules": schedules, "finished": finished, "logged": logged,
               "distinct_outcomes": distinct_finals.len(), "programs": job.programs.len(), "traces": logged, "events": 0,
               "next_stack": next_stack})
    );
    // after a deadlock / hang the managed threads are parked forever: leave without joining them
    std::process::exit(0);
}
