//! Shared types: configuration, value type, state projection, trace writer, argument parsing.

use cachelito_core::{EvictionPolicy, MemoryEstimator};
use serde::{Deserialize, Serialize};
use serde_json::{json, Value};
use std::collections::BTreeMap;
use std::fs::File;
use std::io::{BufWriter, Write};

/// Configuration of one cache, as the specification sees it (0 = not set).
#[derive(Clone, Debug, Serialize, Deserialize, PartialEq)]
pub struct Cfg {
    pub flavour: String, // sync | thread | async
    pub policy: String,  // fifo | lru | lfu | arc | random | tlru
    pub limit: usize,
    pub ttl: u64,
    pub maxmem: usize,
    pub w: String, // none | 0.1 | 0.3 | 1 | 1.5 | 3
}

impl Cfg {
    pub fn limit_opt(&self) -> Option<usize> {
        if self.limit == 0 {
            None
        } else {
            Some(self.limit)
        }
    }
    pub fn ttl_opt(&self) -> Option<u64> {
        if self.ttl == 0 {
            None
        } else {
            Some(self.ttl)
        }
    }
    pub fn maxmem_opt(&self) -> Option<usize> {
        if self.maxmem == 0 {
            None
        } else {
            Some(self.maxmem)
        }
    }
    pub fn weight_opt(&self) -> Option<f64> {
        match self.w.as_str() {
            "none" => None,
            s => Some(s.parse::<f64>().expect("weight")),
        }
    }
    pub fn policy_enum(&self) -> EvictionPolicy {
        EvictionPolicy::from(self.policy.as_str())
    }
}

/// Value stored at engine level: a version number plus a declared size. It is a *user type*
/// whose `MemoryEstimator` reports the declared size (C05: "or what its MemoryEstimator reports
/// for user types"), so the specification's abstract sizes are the sizes the engine sees.
#[derive(Clone, Debug, PartialEq)]
pub struct Val {
    pub ver: i64,
    pub size: usize,
}

impl MemoryEstimator for Val {
    fn estimate_memory(&self) -> usize {
        self.size
    }
}

#[derive(Clone, Debug, Serialize, PartialEq)]
pub struct Ent {
    pub val: i64,
    pub hits: u64,
    pub age: u64,
    pub size: usize,
}

/// Full projection of one cache.
#[derive(Clone, Debug, Serialize, PartialEq, Default)]
pub struct St {
    pub store: BTreeMap<String, Ent>,
    pub order: Vec<String>,
    #[serde(rename = "hitsS")]
    pub hits_s: u64,
    #[serde(rename = "missS")]
    pub miss_s: u64,
}

pub struct TraceWriter {
    w: BufWriter<File>,
    pub lines: usize,
}

impl TraceWriter {
    pub fn create(path: &str) -> Self {
        TraceWriter {
            w: BufWriter::new(File::create(path).expect("create trace file")),
            lines: 0,
        }
    }
    pub fn emit(&mut self, v: &Value) {
        serde_json::to_writer(&mut self.w, v).unwrap();
        self.w.write_all(b"\n").unwrap();
        self.lines += 1;
    }
    pub fn emit_all(&mut self, vs: &[Value]) {
        for v in vs {
            self.emit(v);
        }
    }
    pub fn finish(mut self) {
        self.w.flush().unwrap();
    }
}

pub fn sts1(name: &str, st: &St) -> Value {
    json!({ name: st })
}

/// `--key value` argument lookup.
pub fn arg<'a>(args: &'a [String], key: &str) -> Option<&'a str> {
    args.iter()
        .position(|a| a == key)
        .and_then(|i| args.get(i + 1))
        .map(|s| s.as_str())
}

pub fn arg_or<'a>(args: &'a [String], key: &str, default: &'a str) -> &'a str {
    arg(args, key).unwrap_or(default)
}

pub fn arg_num<T: std::str::FromStr>(args: &[String], key: &str, default: T) -> T {
    arg(args, key)
        .and_then(|s| s.parse::<T>().ok())
        .unwrap_or(default)
}

pub fn unix_now() -> u64 {
    std::time::SystemTime::now()
        .duration_since(std::time::UNIX_EPOCH)
        .unwrap()
        .as_secs()
}

/// Sleep until just after the next wall-clock second boundary (a run that must stay inside one second
/// then has the whole second ahead of it).
pub fn align_to_second() {
    let now = std::time::SystemTime::now().duration_since(std::time::UNIX_EPOCH).unwrap();
    let rest = 1_000_000_000u64 - now.subsec_nanos() as u64;
    std::thread::sleep(std::time::Duration::from_nanos(rest + 2_000_000));
}

pub fn panic_msg(e: &Box<dyn std::any::Any + Send>) -> String {
    e.downcast_ref::<String>()
        .cloned()
        .or_else(|| e.downcast_ref::<&str>().map(|s| s.to_string()))
        .unwrap_or_else(|| "panic".to_string())
}
