//! Key-construction fixtures (C02): one #[cache] and one #[cache_async] function per signature,
//! including methods (receiver first) and up to five arguments. Bodies only count executions.

#![allow(clippy::all)]
use cachelito::cache;
use cachelito_async::cache_async;
use cachelito_core::verif;
use cachelito_core::DefaultCacheableKey;
use serde_json::{json, Value};
use std::cell::Cell;

use crate::common::*;
use crate::macrodrv::block_on;

thread_local! { static EXECS: Cell<i64> = const { Cell::new(0) }; }

fn kbody() -> i64 {
    EXECS.with(|e| {
        e.set(e.get() + 1);
        e.get()
    })
}
fn execs() -> i64 {
    EXECS.with(|e| e.get())
}

#[derive(Debug, Clone)]
pub struct Pt {
    pub x: i32,
    pub tag: String,
}
impl DefaultCacheableKey for Pt {}

#[derive(Debug, Clone)]
pub struct W(pub String);
impl DefaultCacheableKey for W {}

macro_rules! both {
    ($s:ident, $a:ident, ($($p:ident : $t:ty),*)) => {
        #[cache]
        pub fn $s($($p: $t),*) -> i64 { $(let _ = &$p;)* kbody() }
        #[cache_async]
        pub async fn $a($($p: $t),*) -> i64 { $(let _ = &$p;)* kbody() }
    };
}

both!(ks_i_i, ka_i_i, (a: i64, b: i64));
both!(ks_s, ka_s, (a: String));
both!(ks_s_s, ka_s_s, (a: String, b: String));
both!(ks_s_s_s, ka_s_s_s, (a: String, b: String, c: String));
both!(ks_b_oi, ka_b_oi, (a: bool, b: Option<i32>));
both!(ks_vi_vi, ka_vi_vi, (a: Vec<i32>, b: Vec<i32>));
both!(ks_vs, ka_vs, (a: Vec<String>));
both!(ks_t_i, ka_t_i, (a: (i32, String), b: i32));
both!(ks_os_s, ka_os_s, (a: Option<String>, b: String));
both!(ks_five, ka_five, (a: u8, b: i16, c: String, d: char, e: bool));
both!(ks_f_f, ka_f_f, (a: f64, b: f32));

#[cache]
pub fn ks_rs_c(a: &str, b: char) -> i64 {
    let _ = (a, b);
    kbody()
}
#[cache_async]
pub async fn ka_rs_c(a: &str, b: char) -> i64 {
    let _ = (a, b);
    kbody()
}
#[cache]
pub fn ks_sl(a: &[i32]) -> i64 {
    let _ = a;
    kbody()
}
#[cache_async]
pub async fn ka_sl(a: &[i32]) -> i64 {
    let _ = a;
    kbody()
}

impl Pt {
    #[cache]
    pub fn ks_m_pt(&self, a: i32) -> i64 {
        let _ = a;
        kbody()
    }
    #[cache_async]
    pub async fn ka_m_pt(&self, a: i32) -> i64 {
        let _ = a;
        kbody()
    }
}
impl W {
    #[cache]
    pub fn ks_m_w(&self, a: String) -> i64 {
        let _ = &a;
        kbody()
    }
    #[cache_async]
    pub async fn ka_m_w(&self, a: String) -> i64 {
        let _ = &a;
        kbody()
    }
}

/// Receivers whose key does not end in a closing delimiter: a Debug-derived unit-like enum (with an
/// enum argument) and a primitive receiver through a trait impl. Only the separator keeps
/// (A, BC) and (AB, C) resp. (7, 11, 2) and (71, 1, 2) apart.
#[derive(Debug, Clone, Copy, PartialEq)]
pub enum En {
    A,
    AB,
    ABC,
}
impl DefaultCacheableKey for En {}
#[derive(Debug, Clone, Copy, PartialEq)]
pub enum Eu {
    B,
    BC,
    C,
    CB,
}
impl DefaultCacheableKey for Eu {}
impl En {
    #[cache]
    pub fn ks_m_en_en(&self, a: Eu) -> i64 {
        let _ = a;
        kbody()
    }
    #[cache_async]
    pub async fn ka_m_en_en(&self, a: Eu) -> i64 {
        let _ = a;
        kbody()
    }
}
fn d_en(v: &Value) -> En {
    match v["name"].as_str().unwrap() {
        "A" => En::A,
        "AB" => En::AB,
        _ => En::ABC,
    }
}
fn d_eu(v: &Value) -> Eu {
    match v["name"].as_str().unwrap() {
        "B" => Eu::B,
        "BC" => Eu::BC,
        "C" => Eu::C,
        _ => Eu::CB,
    }
}
pub trait KPrim {
    fn ks_m_u_u_u(&self, a: u32, b: u32) -> i64;
}
impl KPrim for u32 {
    #[cache]
    fn ks_m_u_u_u(&self, a: u32, b: u32) -> i64 {
        let _ = (a, b);
        kbody()
    }
}

// ---------------------------------------------------------------------------------------------
// JSON value descriptors -> Rust values
// ---------------------------------------------------------------------------------------------

fn d_int(v: &Value) -> i64 {
    v["v"].as_i64().expect("int")
}
fn d_bool(v: &Value) -> bool {
    v["v"].as_bool().expect("bool")
}
fn d_str(v: &Value) -> String {
    v["cs"].as_array().expect("str").iter().map(|c| c.as_str().unwrap()).collect()
}
fn d_char(v: &Value) -> char {
    v["c"].as_str().expect("char").chars().next().unwrap()
}
fn d_opt<T>(v: &Value, f: impl Fn(&Value) -> T) -> Option<T> {
    if v["some"].as_bool().unwrap() {
        Some(f(&v["v"]))
    } else {
        None
    }
}
fn d_vec<T>(v: &Value, f: impl Fn(&Value) -> T) -> Vec<T> {
    v["xs"].as_array().expect("vec").iter().map(f).collect()
}
fn d_float(v: &Value) -> f64 {
    f64::from_bits(v["bits"].as_str().unwrap().parse::<u64>().unwrap())
}

/// Call the fixture of `sig` / flavour with the given parts (receiver first for methods).
fn call(sig: &str, asy: bool, p: &[Value]) {
    macro_rules! go {
        ($s:expr, $a:expr) => {
            if asy {
                block_on(Box::pin(async move {
                    $a.await;
                }))
            } else {
                $s;
            }
        };
    }
    match sig {
        "i_i" => {
            let (a, b) = (d_int(&p[0]), d_int(&p[1]));
            go!(ks_i_i(a, b), ka_i_i(a, b))
        }
        "s" => {
            let a = d_str(&p[0]);
            let a2 = a.clone();
            go!(ks_s(a), ka_s(a2))
        }
        "s_s" => {
            let (a, b) = (d_str(&p[0]), d_str(&p[1]));
            let (a2, b2) = (a.clone(), b.clone());
            go!(ks_s_s(a, b), ka_s_s(a2, b2))
        }
        "s_s_s" => {
            let (a, b, c) = (d_str(&p[0]), d_str(&p[1]), d_str(&p[2]));
            let (a2, b2, c2) = (a.clone(), b.clone(), c.clone());
            go!(ks_s_s_s(a, b, c), ka_s_s_s(a2, b2, c2))
        }
        "rs_c" => {
            let (a, b) = (d_str(&p[0]), d_char(&p[1]));
            let a2 = a.clone();
            go!(ks_rs_c(&a, b), ka_rs_c(&a2, b))
        }
        "b_oi" => {
            let (a, b) = (d_bool(&p[0]), d_opt(&p[1], |v| d_int(v) as i32));
            go!(ks_b_oi(a, b), ka_b_oi(a, b))
        }
        "vi_vi" => {
            let (a, b) = (d_vec(&p[0], |v| d_int(v) as i32), d_vec(&p[1], |v| d_int(v) as i32));
            let (a2, b2) = (a.clone(), b.clone());
            go!(ks_vi_vi(a, b), ka_vi_vi(a2, b2))
        }
        "vs" => {
            let a = d_vec(&p[0], d_str);
            let a2 = a.clone();
            go!(ks_vs(a), ka_vs(a2))
        }
        "t_i" => {
            let t = &p[0]["xs"];
            let a = (d_int(&t[0]) as i32, d_str(&t[1]));
            let b = d_int(&p[1]) as i32;
            let a2 = a.clone();
            go!(ks_t_i(a, b), ka_t_i(a2, b))
        }
        "os_s" => {
            let (a, b) = (d_opt(&p[0], d_str), d_str(&p[1]));
            let (a2, b2) = (a.clone(), b.clone());
            go!(ks_os_s(a, b), ka_os_s(a2, b2))
        }
        "sl" => {
            let a = d_vec(&p[0], |v| d_int(v) as i32);
            let a2 = a.clone();
            go!(ks_sl(&a), ka_sl(&a2))
        }
        "m_pt" => {
            let f = p[0]["fields"].as_array().unwrap();
            let r = Pt {
                x: d_int(&f[0]["v"]) as i32,
                tag: d_str(&f[1]["v"]),
            };
            let a = d_int(&p[1]) as i32;
            let r2 = r.clone();
            go!(r.ks_m_pt(a), r2.ka_m_pt(a))
        }
        "m_w" => {
            let r = W(d_str(&p[0]["xs"][0]));
            let a = d_str(&p[1]);
            let (r2, a2) = (r.clone(), a.clone());
            go!(r.ks_m_w(a), r2.ka_m_w(a2))
        }
        "m_en_en" => {
            let (r, a) = (d_en(&p[0]), d_eu(&p[1]));
            go!(r.ks_m_en_en(a), r.ka_m_en_en(a))
        }
        "m_u_u_u" => {
            let (r, a, b) = (d_int(&p[0]) as u32, d_int(&p[1]) as u32, d_int(&p[2]) as u32);
            assert!(!asy, "m_u_u_u has no async variant");
            r.ks_m_u_u_u(a, b);
        }
        "five" => {
            let (a, b, c, d, e) = (
                d_int(&p[0]) as u8,
                d_int(&p[1]) as i16,
                d_str(&p[2]),
                d_char(&p[3]),
                d_bool(&p[4]),
            );
            let c2 = c.clone();
            go!(ks_five(a, b, c, d, e), ka_five(a, b, c2, d, e))
        }
        "f_f" => {
            let (a, b) = (d_float(&p[0]), d_float(&p[1]) as f32);
            go!(ks_f_f(a, b), ka_f_f(a, b))
        }
        other => panic!("unknown signature {}", other),
    }
}

/// `keys --script <jsonl> --out <ndjson>`; script line: {"sig","flavour","model",parts:[...]}
/// (grouped by function). For each tuple: empty the function's cache, call (must execute; the
/// sole stored key is the real key string), call again (must be served from the cache).
pub fn cmd_keys(args: &[String]) -> i32 {
    use std::io::{BufRead, BufReader};
    let script = arg(args, "--script").expect("--script");
    let out = arg(args, "--out").expect("--out");
    let mut w = TraceWriter::create(out);
    let f = BufReader::new(std::fs::File::open(script).expect("open script"));
    let mut last_fn = String::new();
    let mut n = 0usize;
    for line in f.lines() {
        let line = line.unwrap();
        if line.trim().is_empty() {
            continue;
        }
        let s: Value = serde_json::from_str(&line).expect("key script line");
        let sig = s["sig"].as_str().unwrap().to_string();
        let asy = s["flavour"].as_str().unwrap() == "async";
        let parts: Vec<Value> = s["parts"].as_array().unwrap().clone();
        let fname = format!("{}_{}", if asy { "ka" } else { "ks" }, sig);
        let first = fname != last_fn;
        last_fn = fname.clone();
        if let Some(i) = verif::inspector(&fname) {
            i.reset();
        }
        let e0 = execs();
        call(&sig, asy, &parts);
        let executed = execs() == e0 + 1;
        let snap = verif::inspector(&fname).expect("inspector").snapshot();
        let key = if snap.entries.len() == 1 {
            snap.entries[0].key.clone()
        } else {
            format!("<{} entries>", snap.entries.len())
        };
        let e1 = execs();
        call(&sig, asy, &parts);
        let again_hit = execs() == e1;
        w.emit(&json!({"ev": "key", "fn": fname, "sig": sig, "flavour": if asy {"async"} else {"sync"},
                       "first": first, "model": s["model"].as_bool().unwrap_or(true),
                       "parts": parts, "key": key, "executed": executed, "again_hit": again_hit}));
        n += 1;
    }
    w.finish();
    println!("{{\"traces\":1,\"events\":{}}}", n);
    0
}
