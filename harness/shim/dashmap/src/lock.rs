//! Verification shim: the shard lock is the harness' instrumented raw RwLock (see
//! ../parking_lot), so that every DashMap operation of a managed thread is a scheduling point.
//! Everything else in this crate is dashmap 6.1.0 unchanged (except the default shard amount).

pub type RwLock<T> = lock_api::RwLock<RawRwLock, T>;
pub type RwLockReadGuard<'a, T> = lock_api::RwLockReadGuard<'a, RawRwLock, T>;
pub type RwLockWriteGuard<'a, T> = lock_api::RwLockWriteGuard<'a, RawRwLock, T>;

#[repr(transparent)]
pub struct RawRwLock(parking_lot::RawRwLock);

unsafe impl lock_api::RawRwLock for RawRwLock {
    #[allow(clippy::declare_interior_mutable_const)]
    const INIT: Self = RawRwLock(<parking_lot::RawRwLock as lock_api::RawRwLock>::INIT);
    type GuardMarker = lock_api::GuardNoSend;

    #[inline]
    fn lock_shared(&self) {
        parking_lot::sched::tag_lock(&self.0 as *const _ as usize, "shard");
        lock_api::RawRwLock::lock_shared(&self.0)
    }
    #[inline]
    fn try_lock_shared(&self) -> bool {
        lock_api::RawRwLock::try_lock_shared(&self.0)
    }
    #[inline]
    unsafe fn unlock_shared(&self) {
        lock_api::RawRwLock::unlock_shared(&self.0)
    }
    #[inline]
    fn lock_exclusive(&self) {
        parking_lot::sched::tag_lock(&self.0 as *const _ as usize, "shard");
        lock_api::RawRwLock::lock_exclusive(&self.0)
    }
    #[inline]
    fn try_lock_exclusive(&self) -> bool {
        lock_api::RawRwLock::try_lock_exclusive(&self.0)
    }
    #[inline]
    unsafe fn unlock_exclusive(&self) {
        lock_api::RawRwLock::unlock_exclusive(&self.0)
    }
}

unsafe impl lock_api::RawRwLockDowngrade for RawRwLock {
    #[inline]
    unsafe fn downgrade(&self) {
        self.0.downgrade_to_shared()
    }
}
