use crate::{mapref, setref, DashMap, DashSet};
use core::fmt;
use core::hash::{BuildHasher, Hash};
use core::marker::PhantomData;
use serde::de::{Deserialize, MapAccess, SeqAccess, Visitor};
use serde::ser::{Serialize, SerializeMap, SerializeSeq, Serializer};
use serde::Deserializer;

pub struct DashMapVisitor<K, V, S> {
    marker: PhantomData<fn() -> DashMap<K, V, S>>,
}

impl<K, V, S> DashMapVisitor<K, V, S>
where
    K: Eq + Hash,
    S: BuildHasher + Clone,
{
    fn new() -> Self {
        DashMapVisitor {
            marker: PhantomData,
        }
    }
}

impl<'de, K, V, S> Visitor<'de> for DashMapVisitor<K, V, S>
where
    K: Deserialize<'de> + Eq + Hash,
    V: Deserialize<'de>,
    S: BuildHasher + Clone + Default,
{
    type Value = DashMap<K, V, S>;

    fn expecting(&self, formatter: &mut fmt::Formatter) -> fmt::Result {
        formatter.write_str("a DashMap")
    }

    fn visit_map<M>(self, mut access: M) -> Result<Self::Value, M::Error>
    where
        M: MapAccess<'de>,
    {
        let map =
            DashMap::with_capacity_and_hasher(access.size_hint().unwrap_or(0), Default::default());

        while let Some((key, value)) = access.next_entry()? {
            map.insert(key, value);
        }

        Ok(map)
    }
}

impl<'de, K, V, S> Deserialize<'de> for DashMap<K, V, S>
where
    K: Deserialize<'de> + Eq + Hash,
    V: Deserialize<'de>,
    S: BuildHasher + Clone + Default,
{
    fn deserialize<D>(deserializer: D) -> Result<Self, D::Error>
    where
        D: Deserializer<'de>,
    {
        deserializer.deserialize_map(DashMapVisitor::<K, V, S>::new())
    }
}

impl<K, V, H> Serialize for DashMap<K, V, H>
where
    K: Serialize + Eq + Hash,
    V: Serialize,
    H: BuildHasher + Clone,
{
    fn serialize<S>(&self, serializer: S) -> Result<S::Ok, S::Error>
    where
        S: Serializer,
    {
        let mut map = serializer.serialize_map(Some(self.len()))?;

        for ref_multi in self.iter() {
            map.serialize_entry(ref_multi.key(), ref_multi.value())?;
        }

        map.end()
    }
}

pub struct DashSetVisitor<K, S> {
    marker: PhantomData<fn() -> DashSet<K, S>>,
}

impl<K, S> DashSetVisitor<K, S>
where
    K: Eq + Hash,
    S: BuildHasher + Clone,
{
    fn new() -> Self {
        DashSetVisitor {
            marker: PhantomData,
        }
    }
}

impl<'de, K, S> Visitor<'de> for DashSetVisitor<K, S>
where
    K: Deserialize<'de> + Eq + Hash,
    S: BuildHasher + Clone + Default,
{
    type Value = DashSet<K, S>;

    fn expecting(&self, formatter: &mut fmt::Formatter) -> fmt::Result {
        formatter.write_str("a DashSet")
    }

    fn visit_seq<M>(self, mut access: M) -> Result<Self::Value, M::Error>
    where
        M: SeqAccess<'de>,
    {
        let map =
            DashSet::with_capacity_and_hasher(access.size_hint().unwrap_or(0), Default::default());

        while let Some(key) = access.next_element()? {
            map.insert(key);
        }

        Ok(map)
    }
}

impl<'de, K, S> Deserialize<'de> for DashSet<K, S>
where
    K: Deserialize<'de> + Eq + Hash,
    S: BuildHasher + Clone + Default,
{
    fn deserialize<D>(deserializer: D) -> Result<Self, D::Error>
    where
        D: Deserializer<'de>,
    {
        deserializer.deserialize_seq(DashSetVisitor::<K, S>::new())
    }
}

impl<K, H> Serialize for DashSet<K, H>
where
    K: Serialize + Eq + Hash,
    H: BuildHasher + Clone,
{
    fn serialize<S>(&self, serializer: S) -> Result<S::Ok, S::Error>
    where
        S: Serializer,
    {
        let mut seq = serializer.serialize_seq(Some(self.len()))?;

        for ref_multi in self.iter() {
            seq.serialize_element(ref_multi.key())?;
        }

        seq.end()
    }
}

macro_rules! serialize_impl {
    () => {
        fn serialize<Ser>(&self, serializer: Ser) -> Result<Ser::Ok, Ser::Error>
        where
            Ser: serde::Serializer,
        {
            std::ops::Deref::deref(self).serialize(serializer)
        }
    };
}

// Map
impl<'a, K: Eq + Hash, V: Serialize> Serialize for mapref::multiple::RefMulti<'a, K, V> {
    serialize_impl! {}
}

impl<'a, K: Eq + Hash, V: Serialize> Serialize for mapref::multiple::RefMutMulti<'a, K, V> {
    serialize_impl! {}
}

impl<'a, K: Eq + Hash, V: Serialize> Serialize for mapref::one::Ref<'a, K, V> {
    serialize_impl! {}
}

impl<'a, K: Eq + Hash, V: Serialize> Serialize for mapref::one::RefMut<'a, K, V> {
    serialize_impl! {}
}

impl<'a, K: Eq + Hash, V, T: Serialize> Serialize for mapref::one::MappedRef<'a, K, V, T> {
    serialize_impl! {}
}

impl<'a, K: Eq + Hash, V, T: Serialize> Serialize for mapref::one::MappedRefMut<'a, K, V, T> {
    serialize_impl! {}
}

// Set
impl<'a, V: Hash + Eq + Serialize> Serialize for setref::multiple::RefMulti<'a, V> {
    serialize_impl! {}
}

impl<'a, V: Hash + Eq + Serialize> Serialize for setref::one::Ref<'a, V> {
    serialize_impl! {}
}
