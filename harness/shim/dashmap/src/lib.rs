#![allow(clippy::type_complexity)]

#[cfg(feature = "arbitrary")]
mod arbitrary;
pub mod iter;
pub mod iter_set;
mod lock;
pub mod mapref;
mod read_only;
#[cfg(feature = "serde")]
mod serde;
mod set;
pub mod setref;
mod t;
pub mod try_result;
mod util;

#[cfg(feature = "rayon")]
pub mod rayon {
    pub mod map;
    pub mod read_only;
    pub mod set;
}

#[cfg(not(feature = "raw-api"))]
use crate::lock::{RwLock, RwLockReadGuard, RwLockWriteGuard};

#[cfg(feature = "raw-api")]
pub use crate::lock::{RawRwLock, RwLock, RwLockReadGuard, RwLockWriteGuard};

use cfg_if::cfg_if;
use core::borrow::Borrow;
use core::fmt;
use core::hash::{BuildHasher, Hash, Hasher};
use core::iter::FromIterator;
use core::ops::{BitAnd, BitOr, Shl, Shr, Sub};
use crossbeam_utils::CachePadded;
use iter::{Iter, IterMut, OwningIter};
pub use mapref::entry::{Entry, OccupiedEntry, VacantEntry};
use mapref::multiple::RefMulti;
use mapref::one::{Ref, RefMut};
use once_cell::sync::OnceCell;
pub use read_only::ReadOnlyView;
pub use set::DashSet;
use std::collections::hash_map::RandomState;
pub use t::Map;
use try_result::TryResult;

cfg_if! {
    if #[cfg(feature = "raw-api")] {
        pub use util::SharedValue;
    } else {
        use util::SharedValue;
    }
}

pub(crate) type HashMap<K, V> = hashbrown::raw::RawTable<(K, SharedValue<V>)>;

// Temporary reimplementation of [`std::collections::TryReserveError`]
// util [`std::collections::TryReserveError`] stabilises.
// We cannot easily create `std::collections` error type from `hashbrown` error type
// without access to `TryReserveError::kind` method.
#[non_exhaustive]
#[derive(Clone, PartialEq, Eq, Debug)]
pub struct TryReserveError {}

fn default_shard_amount() -> usize {
    static DEFAULT_SHARD_AMOUNT: OnceCell<usize> = OnceCell::new();
    *DEFAULT_SHARD_AMOUNT.get_or_init(|| {
        // verification shim: two shards keep whole-map operations (len, iter, clear) short in terms
        // of scheduling points while still exercising cross-shard behaviour
        2
    })
}

fn ncb(shard_amount: usize) -> usize {
    shard_amount.trailing_zeros() as usize
}

/// DashMap is an implementation of a concurrent associative array/hashmap in Rust.
///
/// DashMap tries to implement an easy to use API similar to `std::collections::HashMap`
/// with some slight changes to handle concurrency.
///
/// DashMap tries to be very simple to use and to be a direct replacement for `RwLock<HashMap<K, V>>`.
/// To accomplish this, all methods take `&self` instead of modifying methods taking `&mut self`.
/// This allows you to put a DashMap in an `Arc<T>` and share it between threads while being able to modify it.
///
/// Documentation mentioning locking behaviour acts in the reference frame of the calling thread.
/// This means that it is safe to ignore it across multiple threads.
pub struct DashMap<K, V, S = RandomState> {
    shift: usize,
    shards: Box<[CachePadded<RwLock<HashMap<K, V>>>]>,
    hasher: S,
}

impl<K: Eq + Hash + Clone, V: Clone, S: Clone> Clone for DashMap<K, V, S> {
    fn clone(&self) -> Self {
        let mut inner_shards = Vec::new();

        for shard in self.shards.iter() {
            let shard = shard.read();

            inner_shards.push(CachePadded::new(RwLock::new((*shard).clone())));
        }

        Self {
            shift: self.shift,
            shards: inner_shards.into_boxed_slice(),
            hasher: self.hasher.clone(),
        }
    }
}

impl<K, V, S> Default for DashMap<K, V, S>
where
    K: Eq + Hash,
    S: Default + BuildHasher + Clone,
{
    fn default() -> Self {
        Self::with_hasher(Default::default())
    }
}

impl<'a, K: 'a + Eq + Hash, V: 'a> DashMap<K, V, RandomState> {
    /// Creates a new DashMap with a capacity of 0.
    ///
    /// # Examples
    ///
    /// ```
    /// use dashmap::DashMap;
    ///
    /// let reviews = DashMap::new();
    /// reviews.insert("Veloren", "What a fantastic game!");
    /// ```
    pub fn new() -> Self {
        DashMap::with_hasher(RandomState::default())
    }

    /// Creates a new DashMap with a specified starting capacity.
    ///
    /// # Examples
    ///
    /// ```
    /// use dashmap::DashMap;
    ///
    /// let mappings = DashMap::with_capacity(2);
    /// mappings.insert(2, 4);
    /// mappings.insert(8, 16);
    /// ```
    pub fn with_capacity(capacity: usize) -> Self {
        DashMap::with_capacity_and_hasher(capacity, RandomState::default())
    }

    /// Creates a new DashMap with a specified shard amount
    ///
    /// shard_amount should greater than 0 and be a power of two.
    /// If a shard_amount which is not a power of two is provided, the function will panic.
    ///
    /// # Examples
    ///
    /// ```
    /// use dashmap::DashMap;
    ///
    /// let mappings = DashMap::with_shard_amount(32);
    /// mappings.insert(2, 4);
    /// mappings.insert(8, 16);
    /// ```
    pub fn with_shard_amount(shard_amount: usize) -> Self {
        Self::with_capacity_and_hasher_and_shard_amount(0, RandomState::default(), shard_amount)
    }

    /// Creates a new DashMap with a specified capacity and shard amount.
    ///
    /// shard_amount should greater than 0 and be a power of two.
    /// If a shard_amount which is not a power of two is provided, the function will panic.
    ///
    /// # Examples
    ///
    /// ```
    /// use dashmap::DashMap;
    ///
    /// let mappings = DashMap::with_capacity_and_shard_amount(32, 32);
    /// mappings.insert(2, 4);
    /// mappings.insert(8, 16);
    /// ```
    pub fn with_capacity_and_shard_amount(capacity: usize, shard_amount: usize) -> Self {
        Self::with_capacity_and_hasher_and_shard_amount(
            capacity,
            RandomState::default(),
            shard_amount,
        )
    }
}

impl<'a, K: 'a + Eq + Hash, V: 'a, S: BuildHasher + Clone> DashMap<K, V, S> {
    /// Wraps this `DashMap` into a read-only view. This view allows to obtain raw references to the stored values.
    pub fn into_read_only(self) -> ReadOnlyView<K, V, S> {
        ReadOnlyView::new(self)
    }

    /// Creates a new DashMap with a capacity of 0 and the provided hasher.
    ///
    /// # Examples
    ///
    /// ```
    /// use dashmap::DashMap;
    /// use std::collections::hash_map::RandomState;
    ///
    /// let s = RandomState::new();
    /// let reviews = DashMap::with_hasher(s);
    /// reviews.insert("Veloren", "What a fantastic game!");
    /// ```
    pub fn with_hasher(hasher: S) -> Self {
        Self::with_capacity_and_hasher(0, hasher)
    }

    /// Creates a new DashMap with a specified starting capacity and hasher.
    ///
    /// # Examples
    ///
    /// ```
    /// use dashmap::DashMap;
    /// use std::collections::hash_map::RandomState;
    ///
    /// let s = RandomState::new();
    /// let mappings = DashMap::with_capacity_and_hasher(2, s);
    /// mappings.insert(2, 4);
    /// mappings.insert(8, 16);
    /// ```
    pub fn with_capacity_and_hasher(capacity: usize, hasher: S) -> Self {
        Self::with_capacity_and_hasher_and_shard_amount(capacity, hasher, default_shard_amount())
    }

    /// Creates a new DashMap with a specified hasher and shard amount
    ///
    /// shard_amount should be greater than 0 and a power of two.
    /// If a shard_amount which is not a power of two is provided, the function will panic.
    ///
    /// # Examples
    ///
    /// ```
    /// use dashmap::DashMap;
    /// use std::collections::hash_map::RandomState;
    ///
    /// let s = RandomState::new();
    /// let mappings = DashMap::with_hasher_and_shard_amount(s, 32);
    /// mappings.insert(2, 4);
    /// mappings.insert(8, 16);
    /// ```
    pub fn with_hasher_and_shard_amount(hasher: S, shard_amount: usize) -> Self {
        Self::with_capacity_and_hasher_and_shard_amount(0, hasher, shard_amount)
    }

    /// Creates a new DashMap with a specified starting capacity, hasher and shard_amount.
    ///
    /// shard_amount should greater than 0 and be a power of two.
    /// If a shard_amount which is not a power of two is provided, the function will panic.
    ///
    /// # Examples
    ///
    /// ```
    /// use dashmap::DashMap;
    /// use std::collections::hash_map::RandomState;
    ///
    /// let s = RandomState::new();
    /// let mappings = DashMap::with_capacity_and_hasher_and_shard_amount(2, s, 32);
    /// mappings.insert(2, 4);
    /// mappings.insert(8, 16);
    /// ```
    pub fn with_capacity_and_hasher_and_shard_amount(
        mut capacity: usize,
        hasher: S,
        shard_amount: usize,
    ) -> Self {
        assert!(shard_amount > 1);
        assert!(shard_amount.is_power_of_two());

        let shift = util::ptr_size_bits() - ncb(shard_amount);

        if capacity != 0 {
            capacity = (capacity + (shard_amount - 1)) & !(shard_amount - 1);
        }

        let cps = capacity / shard_amount;

        let shards = (0..shard_amount)
            .map(|_| CachePadded::new(RwLock::new(HashMap::with_capacity(cps))))
            .collect();

        Self {
            shift,
            shards,
            hasher,
        }
    }

    /// Hash a given item to produce a usize.
    /// Uses the provided or default HashBuilder.
    pub fn hash_usize<T: Hash>(&self, item: &T) -> usize {
        self.hash_u64(item) as usize
    }

    fn hash_u64<T: Hash>(&self, item: &T) -> u64 {
        let mut hasher = self.hasher.build_hasher();

        item.hash(&mut hasher);

        hasher.finish()
    }

    cfg_if! {
        if #[cfg(feature = "raw-api")] {
            /// Allows you to peek at the inner shards that store your data.
            /// You should probably not use this unless you know what you are doing.
            ///
            /// Requires the `raw-api` feature to be enabled.
            ///
            /// # Examples
            ///
            /// ```
            /// use dashmap::DashMap;
            ///
            /// let map = DashMap::<(), ()>::new();
            /// println!("Amount of shards: {}", map.shards().len());
            /// ```
            pub fn shards(&self) -> &[CachePadded<RwLock<HashMap<K, V>>>] {
                &self.shards
            }

            /// Provides mutable access to the inner shards that store your data.
            /// You should probably not use this unless you know what you are doing.
            ///
            /// Requires the `raw-api` feature to be enabled.
            ///
            /// # Examples
            ///
            /// ```
            /// use dashmap::DashMap;
            /// use dashmap::SharedValue;
            /// use std::hash::{Hash, Hasher, BuildHasher};
            ///
            /// let mut map = DashMap::<i32, &'static str>::new();
            /// let shard_ind = map.determine_map(&42);
            /// let mut factory = map.hasher().clone();
            /// let hasher = |tuple: &(i32, SharedValue<&'static str>)| {
            ///     let mut hasher = factory.build_hasher();
            ///     tuple.0.hash(&mut hasher);
            ///     hasher.finish()
            /// };
            /// let data = (42, SharedValue::new("forty two"));
            /// let hash = hasher(&data);
            /// map.shards_mut()[shard_ind].get_mut().insert(hash, data, hasher);
            /// assert_eq!(*map.get(&42).unwrap(), "forty two");
            /// ```
            pub fn shards_mut(&mut self) -> &mut [CachePadded<RwLock<HashMap<K, V>>>] {
                &mut self.shards
            }

            /// Consumes this `DashMap` and returns the inner shards.
            /// You should probably not use this unless you know what you are doing.
            ///
            /// Requires the `raw-api` feature to be enabled.
            ///
            /// See [`DashMap::shards()`] and [`DashMap::shards_mut()`] for more information.
            pub fn into_shards(self) -> Box<[CachePadded<RwLock<HashMap<K, V>>>]> {
                self.shards
            }
        } else {
            #[allow(dead_code)]
            pub(crate) fn shards(&self) -> &[CachePadded<RwLock<HashMap<K, V>>>] {
                &self.shards
            }

            #[allow(dead_code)]
            pub(crate) fn shards_mut(&mut self) -> &mut [CachePadded<RwLock<HashMap<K, V>>>] {
                &mut self.shards
            }

            #[allow(dead_code)]
            pub(crate) fn into_shards(self) -> Box<[CachePadded<RwLock<HashMap<K, V>>>]> {
                self.shards
            }
        }
    }

    cfg_if! {
        if #[cfg(feature = "raw-api")] {
            /// Finds which shard a certain key is stored in.
            /// You should probably not use this unless you know what you are doing.
            /// Note that shard selection is dependent on the default or provided HashBuilder.
            ///
            /// Requires the `raw-api` feature to be enabled.
            ///
            /// # Examples
            ///
            /// ```
            /// use dashmap::DashMap;
            ///
            /// let map = DashMap::new();
            /// map.insert("coca-cola", 1.4);
            /// println!("coca-cola is stored in shard: {}", map.determine_map("coca-cola"));
            /// ```
            pub fn determine_map<Q>(&self, key: &Q) -> usize
            where
                K: Borrow<Q>,
                Q: Hash + Eq + ?Sized,
            {
                let hash = self.hash_usize(&key);
                self.determine_shard(hash)
            }
        }
    }

    cfg_if! {
        if #[cfg(feature = "raw-api")] {
            /// Finds which shard a certain hash is stored in.
            ///
            /// Requires the `raw-api` feature to be enabled.
            ///
            /// # Examples
            ///
            /// ```
            /// use dashmap::DashMap;
            ///
            /// let map: DashMap<i32, i32> = DashMap::new();
            /// let key = "key";
            /// let hash = map.hash_usize(&key);
            /// println!("hash is stored in shard: {}", map.determine_shard(hash));
            /// ```
            pub fn determine_shard(&self, hash: usize) -> usize {
                // Leave the high 7 bits for the HashBrown SIMD tag.
                (hash << 7) >> self.shift
            }
        } else {

            pub(crate) fn determine_shard(&self, hash: usize) -> usize {
                // Leave the high 7 bits for the HashBrown SIMD tag.
                (hash << 7) >> self.shift
            }
        }
    }

    /// Returns a reference to the map's [`BuildHasher`].
    ///
    /// # Examples
    ///
    /// ```rust
    /// use dashmap::DashMap;
    /// use std::collections::hash_map::RandomState;
    ///
    /// let hasher = RandomState::new();
    /// let map: DashMap<i32, i32> = DashMap::new();
    /// let hasher: &RandomState = map.hasher();
    /// ```
    ///
    /// [`BuildHasher`]: https://doc.rust-lang.org/std/hash/trait.BuildHasher.html
    pub fn hasher(&self) -> &S {
        &self.hasher
    }

    /// Inserts a key and a value into the map. Returns the old value associated with the key if there was one.
    ///
    /// **Locking behaviour:** May deadlock if called when holding any sort of reference into the map.
    ///
    /// # Examples
    ///
    /// ```
    /// use dashmap::DashMap;
    ///
    /// let map = DashMap::new();
    /// map.insert("I am the key!", "And I am the value!");
    /// ```
    pub fn insert(&self, key: K, value: V) -> Option<V> {
        self._insert(key, value)
    }

    /// Removes an entry from the map, returning the key and value if they existed in the map.
    ///
    /// **Locking behaviour:** May deadlock if called when holding any sort of reference into the map.
    ///
    /// # Examples
    ///
    /// ```
    /// use dashmap::DashMap;
    ///
    /// let soccer_team = DashMap::new();
    /// soccer_team.insert("Jack", "Goalie");
    /// assert_eq!(soccer_team.remove("Jack").unwrap().1, "Goalie");
    /// ```
    pub fn remove<Q>(&self, key: &Q) -> Option<(K, V)>
    where
        K: Borrow<Q>,
        Q: Hash + Eq + ?Sized,
    {
        self._remove(key)
    }

    /// Removes an entry from the map, returning the key and value
    /// if the entry existed and the provided conditional function returned true.
    ///
    /// **Locking behaviour:** May deadlock if called when holding any sort of reference into the map.
    ///
    /// ```
    /// use dashmap::DashMap;
    ///
    /// let soccer_team = DashMap::new();
    /// soccer_team.insert("Sam", "Forward");
    /// soccer_team.remove_if("Sam", |_, position| position == &"Goalie");
    /// assert!(soccer_team.contains_key("Sam"));
    /// ```
    /// ```
    /// use dashmap::DashMap;
    ///
    /// let soccer_team = DashMap::new();
    /// soccer_team.insert("Sam", "Forward");
    /// soccer_team.remove_if("Sam", |_, position| position == &"Forward");
    /// assert!(!soccer_team.contains_key("Sam"));
    /// ```
    pub fn remove_if<Q>(&self, key: &Q, f: impl FnOnce(&K, &V) -> bool) -> Option<(K, V)>
    where
        K: Borrow<Q>,
        Q: Hash + Eq + ?Sized,
    {
        self._remove_if(key, f)
    }

    pub fn remove_if_mut<Q>(&self, key: &Q, f: impl FnOnce(&K, &mut V) -> bool) -> Option<(K, V)>
    where
        K: Borrow<Q>,
        Q: Hash + Eq + ?Sized,
    {
        self._remove_if_mut(key, f)
    }

    /// Creates an iterator over a DashMap yielding immutable references.
    ///
    /// **Locking behaviour:** May deadlock if called when holding a mutable reference into the map.
    ///
    /// # Examples
    ///
    /// ```
    /// use dashmap::DashMap;
    ///
    /// let words = DashMap::new();
    /// words.insert("hello", "world");
    /// assert_eq!(words.iter().count(), 1);
    /// ```
    pub fn iter(&'a self) -> Iter<'a, K, V, S, DashMap<K, V, S>> {
        self._iter()
    }

    /// Iterator over a DashMap yielding mutable references.
    ///
    /// **Locking behaviour:** May deadlock if called when holding any sort of reference into the map.
    ///
    /// # Examples
    ///
    /// ```
    /// use dashmap::DashMap;
    ///
    /// let map = DashMap::new();
    /// map.insert("Johnny", 21);
    /// map.iter_mut().for_each(|mut r| *r += 1);
    /// assert_eq!(*map.get("Johnny").unwrap(), 22);
    /// ```
    pub fn iter_mut(&'a self) -> IterMut<'a, K, V, S, DashMap<K, V, S>> {
        self._iter_mut()
    }

    /// Get an immutable reference to an entry in the map
    ///
    /// **Locking behaviour:** May deadlock if called when holding a mutable reference into the map.
    ///
    /// # Examples
    ///
    /// ```
    /// use dashmap::DashMap;
    ///
    /// let youtubers = DashMap::new();
    /// youtubers.insert("Bosnian Bill", 457000);
    /// assert_eq!(*youtubers.get("Bosnian Bill").unwrap(), 457000);
    /// ```
    pub fn get<Q>(&'a self, key: &Q) -> Option<Ref<'a, K, V>>
    where
        K: Borrow<Q>,
        Q: Hash + Eq + ?Sized,
    {
        self._get(key)
    }

    /// Get a mutable reference to an entry in the map
    ///
    /// **Locking behaviour:** May deadlock if called when holding any sort of reference into the map.
    ///
    /// # Examples
    ///
    /// ```
    /// use dashmap::DashMap;
    ///
    /// let class = DashMap::new();
    /// class.insert("Albin", 15);
    /// *class.get_mut("Albin").unwrap() -= 1;
    /// assert_eq!(*class.get("Albin").unwrap(), 14);
    /// ```
    pub fn get_mut<Q>(&'a self, key: &Q) -> Option<RefMut<'a, K, V>>
    where
        K: Borrow<Q>,
        Q: Hash + Eq + ?Sized,
    {
        self._get_mut(key)
    }

    /// Get an immutable reference to an entry in the map, if the shard is not locked.
    /// If the shard is locked, the function will return [TryResult::Locked].
    ///
    /// # Examples
    ///
    /// ```
    /// use dashmap::DashMap;
    /// use dashmap::try_result::TryResult;
    ///
    /// let map = DashMap::new();
    /// map.insert("Johnny", 21);
    ///
    /// assert_eq!(*map.try_get("Johnny").unwrap(), 21);
    ///
    /// let _result1_locking = map.get_mut("Johnny");
    ///
    /// let result2 = map.try_get("Johnny");
    /// assert!(result2.is_locked());
    /// ```
    pub fn try_get<Q>(&'a self, key: &Q) -> TryResult<Ref<'a, K, V>>
    where
        K: Borrow<Q>,
        Q: Hash + Eq + ?Sized,
    {
        self._try_get(key)
    }

    /// Get a mutable reference to an entry in the map, if the shard is not locked.
    /// If the shard is locked, the function will return [TryResult::Locked].
    ///
    /// # Examples
    ///
    /// ```
    /// use dashmap::DashMap;
    /// use dashmap::try_result::TryResult;
    ///
    /// let map = DashMap::new();
    /// map.insert("Johnny", 21);
    ///
    /// *map.try_get_mut("Johnny").unwrap() += 1;
    /// assert_eq!(*map.get("Johnny").unwrap(), 22);
    ///
    /// let _result1_locking = map.get("Johnny");
    ///
    /// let result2 = map.try_get_mut("Johnny");
    /// assert!(result2.is_locked());
    /// ```
    pub fn try_get_mut<Q>(&'a self, key: &Q) -> TryResult<RefMut<'a, K, V>>
    where
        K: Borrow<Q>,
        Q: Hash + Eq + ?Sized,
    {
        self._try_get_mut(key)
    }

    /// Remove excess capacity to reduce memory usage.
    ///
    /// **Locking behaviour:** May deadlock if called when holding any sort of reference into the map.
    /// # Examples
    ///
    /// ```
    /// use dashmap::DashMap;
    /// use dashmap::try_result::TryResult;
    ///
    /// let map = DashMap::new();
    /// map.insert("Johnny", 21);
    /// assert!(map.capacity() > 0);
    /// map.remove("Johnny");
    /// map.shrink_to_fit();
    /// assert_eq!(map.capacity(), 0);
    /// ```
    pub fn shrink_to_fit(&self) {
        self._shrink_to_fit();
    }

    /// Retain elements that whose predicates return true
    /// and discard elements whose predicates return false.
    ///
    /// **Locking behaviour:** May deadlock if called when holding any sort of reference into the map.
    ///
    /// # Examples
    ///
    /// ```
    /// use dashmap::DashMap;
    ///
    /// let people = DashMap::new();
    /// people.insert("Albin", 15);
    /// people.insert("Jones", 22);
    /// people.insert("Charlie", 27);
    /// people.retain(|_, v| *v > 20);
    /// assert_eq!(people.len(), 2);
    /// ```
    pub fn retain(&self, f: impl FnMut(&K, &mut V) -> bool) {
        self._retain(f);
    }

    /// Fetches the total number of key-value pairs stored in the map.
    ///
    /// **Locking behaviour:** May deadlock if called when holding a mutable reference into the map.
    ///
    /// # Examples
    ///
    /// ```
    /// use dashmap::DashMap;
    ///
    /// let people = DashMap::new();
    /// people.insert("Albin", 15);
    /// people.insert("Jones", 22);
    /// people.insert("Charlie", 27);
    /// assert_eq!(people.len(), 3);
    /// ```
    pub fn len(&self) -> usize {
        self._len()
    }

    /// Checks if the map is empty or not.
    ///
    /// **Locking behaviour:** May deadlock if called when holding a mutable reference into the map.
    ///
    /// # Examples
    ///
    /// ```
    /// use dashmap::DashMap;
    ///
    /// let map = DashMap::<(), ()>::new();
    /// assert!(map.is_empty());
    /// ```
    pub fn is_empty(&self) -> bool {
        self._is_empty()
    }

    /// Removes all key-value pairs in the map.
    ///
    /// **Locking behaviour:** May deadlock if called when holding any sort of reference into the map.
    ///
    /// # Examples
    ///
    /// ```
    /// use dashmap::DashMap;
    ///
    /// let stats = DashMap::new();
    /// stats.insert("Goals", 4);
    /// assert!(!stats.is_empty());
    /// stats.clear();
    /// assert!(stats.is_empty());
    /// ```
    pub fn clear(&self) {
        self._clear();
    }

    /// Returns how many key-value pairs the map can store without reallocating.
    ///
    /// **Locking behaviour:** May deadlock if called when holding a mutable reference into the map.
    pub fn capacity(&self) -> usize {
        self._capacity()
    }

    /// Modify a specific value according to a function.
    ///
    /// **Locking behaviour:** May deadlock if called when holding any sort of reference into the map.
    ///
    /// # Examples
    ///
    /// ```
    /// use dashmap::DashMap;
    ///
    /// let stats = DashMap::new();
    /// stats.insert("Goals", 4);
    /// stats.alter("Goals", |_, v| v * 2);
    /// assert_eq!(*stats.get("Goals").unwrap(), 8);
    /// ```
    ///
    /// # Panics
    ///
    /// If the given closure panics, then `alter` will abort the process
    pub fn alter<Q>(&self, key: &Q, f: impl FnOnce(&K, V) -> V)
    where
        K: Borrow<Q>,
        Q: Hash + Eq + ?Sized,
    {
        self._alter(key, f);
    }

    /// Modify every value in the map according to a function.
    ///
    /// **Locking behaviour:** May deadlock if called when holding any sort of reference into the map.
    ///
    /// # Examples
    ///
    /// ```
    /// use dashmap::DashMap;
    ///
    /// let stats = DashMap::new();
    /// stats.insert("Wins", 4);
    /// stats.insert("Losses", 2);
    /// stats.alter_all(|_, v| v + 1);
    /// assert_eq!(*stats.get("Wins").unwrap(), 5);
    /// assert_eq!(*stats.get("Losses").unwrap(), 3);
    /// ```
    ///
    /// # Panics
    ///
    /// If the given closure panics, then `alter_all` will abort the process
    pub fn alter_all(&self, f: impl FnMut(&K, V) -> V) {
        self._alter_all(f);
    }

    /// Scoped access into an item of the map according to a function.
    ///
    /// **Locking behaviour:** May deadlock if called when holding any sort of reference into the map.
    ///
    /// # Examples
    ///
    /// ```
    /// use dashmap::DashMap;
    ///
    /// let warehouse = DashMap::new();
    /// warehouse.insert(4267, ("Banana", 100));
    /// warehouse.insert(2359, ("Pear", 120));
    /// let fruit = warehouse.view(&4267, |_k, v| *v);
    /// assert_eq!(fruit, Some(("Banana", 100)));
    /// ```
    ///
    /// # Panics
    ///
    /// If the given closure panics, then `view` will abort the process
    pub fn view<Q, R>(&self, key: &Q, f: impl FnOnce(&K, &V) -> R) -> Option<R>
    where
        K: Borrow<Q>,
        Q: Hash + Eq + ?Sized,
    {
        self._view(key, f)
    }

    /// Checks if the map contains a specific key.
    ///
    /// **Locking behaviour:** May deadlock if called when holding a mutable reference into the map.
    ///
    /// # Examples
    ///
    /// ```
    /// use dashmap::DashMap;
    ///
    /// let team_sizes = DashMap::new();
    /// team_sizes.insert("Dakota Cherries", 23);
    /// assert!(team_sizes.contains_key("Dakota Cherries"));
    /// ```
    pub fn contains_key<Q>(&self, key: &Q) -> bool
    where
        K: Borrow<Q>,
        Q: Hash + Eq + ?Sized,
    {
        self._contains_key(key)
    }

    /// Advanced entry API that tries to mimic `std::collections::HashMap`.
    /// See the documentation on `dashmap::mapref::entry` for more details.
    ///
    /// **Locking behaviour:** May deadlock if called when holding any sort of reference into the map.
    pub fn entry(&'a self, key: K) -> Entry<'a, K, V> {
        self._entry(key)
    }

    /// Advanced entry API that tries to mimic `std::collections::HashMap`.
    /// See the documentation on `dashmap::mapref::entry` for more details.
    ///
    /// Returns None if the shard is currently locked.
    pub fn try_entry(&'a self, key: K) -> Option<Entry<'a, K, V>> {
        self._try_entry(key)
    }

    /// Advanced entry API that tries to mimic `std::collections::HashMap::try_reserve`.
    /// Tries to reserve capacity for at least `shard * additional`
    /// and may reserve more space to avoid frequent reallocations.
    ///
    /// # Errors
    ///
    /// If the capacity overflows, or the allocator reports a failure, then an error is returned.
    // TODO: return std::collections::TryReserveError once std::collections::TryReserveErrorKind stabilises.
    pub fn try_reserve(&mut self, additional: usize) -> Result<(), TryReserveError> {
        for shard in self.shards.iter() {
            shard
                .write()
                .try_reserve(additional, |(k, _v)| {
                    let mut hasher = self.hasher.build_hasher();
                    k.hash(&mut hasher);
                    hasher.finish()
                })
                .map_err(|_| TryReserveError {})?;
        }
        Ok(())
    }
}

impl<'a, K: 'a + Eq + Hash, V: 'a, S: 'a + BuildHasher + Clone> Map<'a, K, V, S>
    for DashMap<K, V, S>
{
    fn _shard_count(&self) -> usize {
        self.shards.len()
    }

    unsafe fn _get_read_shard(&'a self, i: usize) -> &'a HashMap<K, V> {
        debug_assert!(i < self.shards.len());

        &*self.shards.get_unchecked(i).data_ptr()
    }

    unsafe fn _yield_read_shard(&'a self, i: usize) -> RwLockReadGuard<'a, HashMap<K, V>> {
        debug_assert!(i < self.shards.len());

        self.shards.get_unchecked(i).read()
    }

    unsafe fn _yield_write_shard(&'a self, i: usize) -> RwLockWriteGuard<'a, HashMap<K, V>> {
        debug_assert!(i < self.shards.len());

        self.shards.get_unchecked(i).write()
    }

    unsafe fn _try_yield_read_shard(
        &'a self,
        i: usize,
    ) -> Option<RwLockReadGuard<'a, HashMap<K, V>>> {
        debug_assert!(i < self.shards.len());

        self.shards.get_unchecked(i).try_read()
    }

    unsafe fn _try_yield_write_shard(
        &'a self,
        i: usize,
    ) -> Option<RwLockWriteGuard<'a, HashMap<K, V>>> {
        debug_assert!(i < self.shards.len());

        self.shards.get_unchecked(i).try_write()
    }

    fn _insert(&self, key: K, value: V) -> Option<V> {
        match self.entry(key) {
            Entry::Occupied(mut o) => Some(o.insert(value)),
            Entry::Vacant(v) => {
                v.insert(value);
                None
            }
        }
    }

    fn _remove<Q>(&self, key: &Q) -> Option<(K, V)>
    where
        K: Borrow<Q>,
        Q: Hash + Eq + ?Sized,
    {
        let hash = self.hash_u64(&key);

        let idx = self.determine_shard(hash as usize);

        let mut shard = unsafe { self._yield_write_shard(idx) };

        if let Some(bucket) = shard.find(hash, |(k, _v)| key == k.borrow()) {
            let ((k, v), _) = unsafe { shard.remove(bucket) };
            Some((k, v.into_inner()))
        } else {
            None
        }
    }

    fn _remove_if<Q>(&self, key: &Q, f: impl FnOnce(&K, &V) -> bool) -> Option<(K, V)>
    where
        K: Borrow<Q>,
        Q: Hash + Eq + ?Sized,
    {
        let hash = self.hash_u64(&key);

        let idx = self.determine_shard(hash as usize);

        let mut shard = unsafe { self._yield_write_shard(idx) };

        if let Some(bucket) = shard.find(hash, |(k, _v)| key == k.borrow()) {
            let (k, v) = unsafe { bucket.as_ref() };
            if f(k, v.get()) {
                let ((k, v), _) = unsafe { shard.remove(bucket) };
                Some((k, v.into_inner()))
            } else {
                None
            }
        } else {
            None
        }
    }

    fn _remove_if_mut<Q>(&self, key: &Q, f: impl FnOnce(&K, &mut V) -> bool) -> Option<(K, V)>
    where
        K: Borrow<Q>,
        Q: Hash + Eq + ?Sized,
    {
        let hash = self.hash_u64(&key);

        let idx = self.determine_shard(hash as usize);

        let mut shard = unsafe { self._yield_write_shard(idx) };

        if let Some(bucket) = shard.find(hash, |(k, _v)| key == k.borrow()) {
            let (k, v) = unsafe { bucket.as_mut() };
            if f(k, v.get_mut()) {
                let ((k, v), _) = unsafe { shard.remove(bucket) };
                Some((k, v.into_inner()))
            } else {
                None
            }
        } else {
            None
        }
    }

    fn _iter(&'a self) -> Iter<'a, K, V, S, DashMap<K, V, S>> {
        Iter::new(self)
    }

    fn _iter_mut(&'a self) -> IterMut<'a, K, V, S, DashMap<K, V, S>> {
        IterMut::new(self)
    }

    fn _get<Q>(&'a self, key: &Q) -> Option<Ref<'a, K, V>>
    where
        K: Borrow<Q>,
        Q: Hash + Eq + ?Sized,
    {
        let hash = self.hash_u64(&key);

        let idx = self.determine_shard(hash as usize);

        let shard = unsafe { self._yield_read_shard(idx) };

        if let Some(bucket) = shard.find(hash, |(k, _v)| key == k.borrow()) {
            unsafe {
                let (k, v) = bucket.as_ref();
                Some(Ref::new(shard, k, v.as_ptr()))
            }
        } else {
            None
        }
    }

    fn _get_mut<Q>(&'a self, key: &Q) -> Option<RefMut<'a, K, V>>
    where
        K: Borrow<Q>,
        Q: Hash + Eq + ?Sized,
    {
        let hash = self.hash_u64(&key);

        let idx = self.determine_shard(hash as usize);

        let shard = unsafe { self._yield_write_shard(idx) };

        if let Some(bucket) = shard.find(hash, |(k, _v)| key == k.borrow()) {
            unsafe {
                let (k, v) = bucket.as_ref();
                Some(RefMut::new(shard, k, v.as_ptr()))
            }
        } else {
            None
        }
    }

    fn _try_get<Q>(&'a self, key: &Q) -> TryResult<Ref<'a, K, V>>
    where
        K: Borrow<Q>,
        Q: Hash + Eq + ?Sized,
    {
        let hash = self.hash_u64(&key);

        let idx = self.determine_shard(hash as usize);

        let shard = match unsafe { self._try_yield_read_shard(idx) } {
            Some(shard) => shard,
            None => return TryResult::Locked,
        };

        if let Some(bucket) = shard.find(hash, |(k, _v)| key == k.borrow()) {
            unsafe {
                let (k, v) = bucket.as_ref();
                TryResult::Present(Ref::new(shard, k, v.as_ptr()))
            }
        } else {
            TryResult::Absent
        }
    }

    fn _try_get_mut<Q>(&'a self, key: &Q) -> TryResult<RefMut<'a, K, V>>
    where
        K: Borrow<Q>,
        Q: Hash + Eq + ?Sized,
    {
        let hash = self.hash_u64(&key);

        let idx = self.determine_shard(hash as usize);

        let shard = match unsafe { self._try_yield_write_shard(idx) } {
            Some(shard) => shard,
            None => return TryResult::Locked,
        };

        if let Some(bucket) = shard.find(hash, |(k, _v)| key == k.borrow()) {
            unsafe {
                let (k, v) = bucket.as_ref();
                TryResult::Present(RefMut::new(shard, k, v.as_ptr()))
            }
        } else {
            TryResult::Absent
        }
    }

    fn _shrink_to_fit(&self) {
        self.shards.iter().for_each(|s| {
            let mut shard = s.write();
            let size = shard.len();
            shard.shrink_to(size, |(k, _v)| {
                let mut hasher = self.hasher.build_hasher();
                k.hash(&mut hasher);
                hasher.finish()
            })
        });
    }

    fn _retain(&self, mut f: impl FnMut(&K, &mut V) -> bool) {
        self.shards.iter().for_each(|s| {
            unsafe {
                let mut shard = s.write();
                // Here we only use `iter` as a temporary, preventing use-after-free
                for bucket in shard.iter() {
                    let (k, v) = bucket.as_mut();
                    if !f(&*k, v.get_mut()) {
                        shard.erase(bucket);
                    }
                }
            }
        });
    }

    fn _len(&self) -> usize {
        self.shards.iter().map(|s| s.read().len()).sum()
    }

    fn _capacity(&self) -> usize {
        self.shards.iter().map(|s| s.read().capacity()).sum()
    }

    fn _alter<Q>(&self, key: &Q, f: impl FnOnce(&K, V) -> V)
    where
        K: Borrow<Q>,
        Q: Hash + Eq + ?Sized,
    {
        if let Some(mut r) = self.get_mut(key) {
            util::map_in_place_2(r.pair_mut(), f);
        }
    }

    fn _alter_all(&self, mut f: impl FnMut(&K, V) -> V) {
        self.iter_mut()
            .for_each(|mut m| util::map_in_place_2(m.pair_mut(), &mut f));
    }

    fn _view<Q, R>(&self, key: &Q, f: impl FnOnce(&K, &V) -> R) -> Option<R>
    where
        K: Borrow<Q>,
        Q: Hash + Eq + ?Sized,
    {
        self.get(key).map(|r| {
            let (k, v) = r.pair();
            f(k, v)
        })
    }

    fn _entry(&'a self, key: K) -> Entry<'a, K, V> {
        let hash = self.hash_u64(&key);

        let idx = self.determine_shard(hash as usize);

        let mut shard = unsafe { self._yield_write_shard(idx) };

        match shard.find_or_find_insert_slot(
            hash,
            |(k, _v)| k == &key,
            |(k, _v)| {
                let mut hasher = self.hasher.build_hasher();
                k.hash(&mut hasher);
                hasher.finish()
            },
        ) {
            Ok(elem) => Entry::Occupied(unsafe { OccupiedEntry::new(shard, key, elem) }),
            Err(slot) => Entry::Vacant(unsafe { VacantEntry::new(shard, key, hash, slot) }),
        }
    }

    fn _try_entry(&'a self, key: K) -> Option<Entry<'a, K, V>> {
        let hash = self.hash_u64(&key);

        let idx = self.determine_shard(hash as usize);

        let mut shard = match unsafe { self._try_yield_write_shard(idx) } {
            Some(shard) => shard,
            None => return None,
        };

        match shard.find_or_find_insert_slot(
            hash,
            |(k, _v)| k == &key,
            |(k, _v)| {
                let mut hasher = self.hasher.build_hasher();
                k.hash(&mut hasher);
                hasher.finish()
            },
        ) {
            Ok(elem) => Some(Entry::Occupied(unsafe {
                OccupiedEntry::new(shard, key, elem)
            })),
            Err(slot) => Some(Entry::Vacant(unsafe {
                VacantEntry::new(shard, key, hash, slot)
            })),
        }
    }

    fn _hasher(&self) -> S {
        self.hasher.clone()
    }
}

impl<K: Eq + Hash + fmt::Debug, V: fmt::Debug, S: BuildHasher + Clone> fmt::Debug
    for DashMap<K, V, S>
{
    fn fmt(&self, f: &mut fmt::Formatter<'_>) -> fmt::Result {
        let mut pmap = f.debug_map();

        for r in self {
            let (k, v) = r.pair();

            pmap.entry(k, v);
        }

        pmap.finish()
    }
}

impl<'a, K: 'a + Eq + Hash, V: 'a, S: BuildHasher + Clone> Shl<(K, V)> for &'a DashMap<K, V, S> {
    type Output = Option<V>;

    fn shl(self, pair: (K, V)) -> Self::Output {
        self.insert(pair.0, pair.1)
    }
}

impl<'a, K: 'a + Eq + Hash, V: 'a, S: BuildHasher + Clone, Q> Shr<&Q> for &'a DashMap<K, V, S>
where
    K: Borrow<Q>,
    Q: Hash + Eq + ?Sized,
{
    type Output = Ref<'a, K, V>;

    fn shr(self, key: &Q) -> Self::Output {
        self.get(key).unwrap()
    }
}

impl<'a, K: 'a + Eq + Hash, V: 'a, S: BuildHasher + Clone, Q> BitOr<&Q> for &'a DashMap<K, V, S>
where
    K: Borrow<Q>,
    Q: Hash + Eq + ?Sized,
{
    type Output = RefMut<'a, K, V>;

    fn bitor(self, key: &Q) -> Self::Output {
        self.get_mut(key).unwrap()
    }
}

impl<'a, K: 'a + Eq + Hash, V: 'a, S: BuildHasher + Clone, Q> Sub<&Q> for &'a DashMap<K, V, S>
where
    K: Borrow<Q>,
    Q: Hash + Eq + ?Sized,
{
    type Output = Option<(K, V)>;

    fn sub(self, key: &Q) -> Self::Output {
        self.remove(key)
    }
}

impl<'a, K: 'a + Eq + Hash, V: 'a, S: BuildHasher + Clone, Q> BitAnd<&Q> for &'a DashMap<K, V, S>
where
    K: Borrow<Q>,
    Q: Hash + Eq + ?Sized,
{
    type Output = bool;

    fn bitand(self, key: &Q) -> Self::Output {
        self.contains_key(key)
    }
}

impl<K: Eq + Hash, V, S: BuildHasher + Clone> IntoIterator for DashMap<K, V, S> {
    type Item = (K, V);

    type IntoIter = OwningIter<K, V, S>;

    fn into_iter(self) -> Self::IntoIter {
        OwningIter::new(self)
    }
}

impl<'a, K: Eq + Hash, V, S: BuildHasher + Clone> IntoIterator for &'a DashMap<K, V, S> {
    type Item = RefMulti<'a, K, V>;

    type IntoIter = Iter<'a, K, V, S, DashMap<K, V, S>>;

    fn into_iter(self) -> Self::IntoIter {
        self.iter()
    }
}

impl<K: Eq + Hash, V, S: BuildHasher + Clone> Extend<(K, V)> for DashMap<K, V, S> {
    fn extend<I: IntoIterator<Item = (K, V)>>(&mut self, intoiter: I) {
        for pair in intoiter.into_iter() {
            self.insert(pair.0, pair.1);
        }
    }
}

impl<K: Eq + Hash, V, S: BuildHasher + Clone + Default> FromIterator<(K, V)> for DashMap<K, V, S> {
    fn from_iter<I: IntoIterator<Item = (K, V)>>(intoiter: I) -> Self {
        let mut map = DashMap::default();

        map.extend(intoiter);

        map
    }
}

#[cfg(feature = "typesize")]
impl<K, V, S> typesize::TypeSize for DashMap<K, V, S>
where
    K: typesize::TypeSize + Eq + Hash,
    V: typesize::TypeSize,
    S: typesize::TypeSize + Clone + BuildHasher,
{
    fn extra_size(&self) -> usize {
        let shards_extra_size: usize = self
            .shards
            .iter()
            .map(|shard_lock| {
                let shard = shard_lock.read();
                let hashtable_size = shard.allocation_info().1.size();

                // Safety: The iterator is dropped before the HashTable
                let iter = unsafe { shard.iter() };
                let entry_size_iter = iter.map(|bucket| {
                    // Safety: The iterator returns buckets with valid pointers to entries
                    let (key, value) = unsafe { bucket.as_ref() };
                    key.extra_size() + value.get().extra_size()
                });

                core::mem::size_of::<CachePadded<RwLock<HashMap<K, V>>>>()
                    + hashtable_size
                    + entry_size_iter.sum::<usize>()
            })
            .sum();

        self.hasher.extra_size() + shards_extra_size
    }

    typesize::if_typesize_details! {
        fn get_collection_item_count(&self) -> Option<usize> {
            Some(self.len())
        }
    }
}

#[cfg(test)]
mod tests {
    use crate::DashMap;
    use std::collections::hash_map::RandomState;

    #[test]
    fn test_basic() {
        let dm = DashMap::new();

        dm.insert(0, 0);

        assert_eq!(dm.get(&0).unwrap().value(), &0);
    }

    #[test]
    fn test_default() {
        let dm: DashMap<u32, u32> = DashMap::default();

        dm.insert(0, 0);

        assert_eq!(dm.get(&0).unwrap().value(), &0);
    }

    #[test]
    fn test_multiple_hashes() {
        let dm: DashMap<u32, u32> = DashMap::default();

        for i in 0..100 {
            dm.insert(0, i);

            dm.insert(i, i);
        }

        for i in 1..100 {
            let r = dm.get(&i).unwrap();

            assert_eq!(i, *r.value());

            assert_eq!(i, *r.key());
        }

        let r = dm.get(&0).unwrap();

        assert_eq!(99, *r.value());
    }

    #[test]
    fn test_more_complex_values() {
        #[derive(Hash, PartialEq, Debug, Clone)]

        struct T0 {
            s: String,
            u: u8,
        }

        let dm = DashMap::new();

        let range = 0..10;

        for i in range {
            let t = T0 {
                s: i.to_string(),
                u: i as u8,
            };

            dm.insert(i, t.clone());

            assert_eq!(&t, dm.get(&i).unwrap().value());
        }
    }

    #[test]
    fn test_different_hashers_randomstate() {
        let dm_hm_default: DashMap<u32, u32, RandomState> =
            DashMap::with_hasher(RandomState::new());

        for i in 0..10 {
            dm_hm_default.insert(i, i);

            assert_eq!(i, *dm_hm_default.get(&i).unwrap().value());
        }
    }

    #[test]
    fn test_map_view() {
        let dm = DashMap::new();

        let vegetables: [String; 4] = [
            "Salad".to_string(),
            "Beans".to_string(),
            "Potato".to_string(),
            "Tomato".to_string(),
        ];

        // Give it some values
        dm.insert(0, "Banana".to_string());
        dm.insert(4, "Pear".to_string());
        dm.insert(9, "Potato".to_string());
        dm.insert(12, "Chicken".to_string());

        let potato_vegetableness = dm.view(&9, |_, v| vegetables.contains(v));
        assert_eq!(potato_vegetableness, Some(true));

        let chicken_vegetableness = dm.view(&12, |_, v| vegetables.contains(v));
        assert_eq!(chicken_vegetableness, Some(false));

        let not_in_map = dm.view(&30, |_k, _v| false);
        assert_eq!(not_in_map, None);
    }

    #[test]
    fn test_try_get() {
        {
            let map = DashMap::new();
            map.insert("Johnny", 21);

            assert_eq!(*map.try_get("Johnny").unwrap(), 21);

            let _result1_locking = map.get_mut("Johnny");

            let result2 = map.try_get("Johnny");
            assert!(result2.is_locked());
        }

        {
            let map = DashMap::new();
            map.insert("Johnny", 21);

            *map.try_get_mut("Johnny").unwrap() += 1;
            assert_eq!(*map.get("Johnny").unwrap(), 22);

            let _result1_locking = map.get("Johnny");

            let result2 = map.try_get_mut("Johnny");
            assert!(result2.is_locked());
        }
    }

    #[test]
    fn test_try_reserve() {
        let mut map: DashMap<i32, i32> = DashMap::new();
        // DashMap is empty and doesn't allocate memory
        assert_eq!(map.capacity(), 0);

        map.try_reserve(10).unwrap();

        // And now map can hold at least 10 elements
        assert!(map.capacity() >= 10);
    }

    #[test]
    fn test_try_reserve_errors() {
        let mut map: DashMap<i32, i32> = DashMap::new();

        match map.try_reserve(usize::MAX) {
            Err(_) => {}
            _ => panic!("should have raised CapacityOverflow error"),
        }
    }
}
