use super::mapref::multiple::{RefMulti, RefMutMulti};
use crate::lock::{RwLockReadGuard, RwLockWriteGuard};
use crate::t::Map;
use crate::util::SharedValue;
use crate::{DashMap, HashMap};
use core::hash::{BuildHasher, Hash};
use core::mem;
use std::collections::hash_map::RandomState;
use std::marker::PhantomData;
use std::sync::Arc;

/// Iterator over a DashMap yielding key value pairs.
///
/// # Examples
///
/// ```
/// use dashmap::DashMap;
///
/// let map = DashMap::new();
/// map.insert("hello", "world");
/// map.insert("alex", "steve");
/// let pairs: Vec<(&'static str, &'static str)> = map.into_iter().collect();
/// assert_eq!(pairs.len(), 2);
/// ```
pub struct OwningIter<K, V, S = RandomState> {
    map: DashMap<K, V, S>,
    shard_i: usize,
    current: Option<GuardOwningIter<K, V>>,
}

impl<K: Eq + Hash, V, S: BuildHasher + Clone> OwningIter<K, V, S> {
    pub(crate) fn new(map: DashMap<K, V, S>) -> Self {
        Self {
            map,
            shard_i: 0,
            current: None,
        }
    }
}

type GuardOwningIter<K, V> = hashbrown::raw::RawIntoIter<(K, SharedValue<V>)>;

impl<K: Eq + Hash, V, S: BuildHasher + Clone> Iterator for OwningIter<K, V, S> {
    type Item = (K, V);

    fn next(&mut self) -> Option<Self::Item> {
        loop {
            if let Some(current) = self.current.as_mut() {
                if let Some((k, v)) = current.next() {
                    return Some((k, v.into_inner()));
                }
            }

            if self.shard_i == self.map._shard_count() {
                return None;
            }

            //let guard = unsafe { self.map._yield_read_shard(self.shard_i) };
            let mut shard_wl = unsafe { self.map._yield_write_shard(self.shard_i) };

            let map = mem::take(&mut *shard_wl);

            drop(shard_wl);

            let iter = map.into_iter();

            //unsafe { ptr::write(&mut self.current, Some((arcee, iter))); }
            self.current = Some(iter);

            self.shard_i += 1;
        }
    }
}

unsafe impl<K, V, S> Send for OwningIter<K, V, S>
where
    K: Eq + Hash + Send,
    V: Send,
    S: BuildHasher + Clone + Send,
{
}

unsafe impl<K, V, S> Sync for OwningIter<K, V, S>
where
    K: Eq + Hash + Sync,
    V: Sync,
    S: BuildHasher + Clone + Sync,
{
}

type GuardIter<'a, K, V> = (
    Arc<RwLockReadGuard<'a, HashMap<K, V>>>,
    hashbrown::raw::RawIter<(K, SharedValue<V>)>,
);

type GuardIterMut<'a, K, V> = (
    Arc<RwLockWriteGuard<'a, HashMap<K, V>>>,
    hashbrown::raw::RawIter<(K, SharedValue<V>)>,
);

/// Iterator over a DashMap yielding immutable references.
///
/// # Examples
///
/// ```
/// use dashmap::DashMap;
///
/// let map = DashMap::new();
/// map.insert("hello", "world");
/// assert_eq!(map.iter().count(), 1);
/// ```
pub struct Iter<'a, K, V, S = RandomState, M = DashMap<K, V, S>> {
    map: &'a M,
    shard_i: usize,
    current: Option<GuardIter<'a, K, V>>,
    marker: PhantomData<S>,
}

impl<'i, K: Clone + Hash + Eq, V: Clone, S: Clone + BuildHasher> Clone for Iter<'i, K, V, S> {
    fn clone(&self) -> Self {
        Iter::new(self.map)
    }
}

unsafe impl<'a, 'i, K, V, S, M> Send for Iter<'i, K, V, S, M>
where
    K: 'a + Eq + Hash + Send,
    V: 'a + Send,
    S: 'a + BuildHasher + Clone,
    M: Map<'a, K, V, S>,
{
}

unsafe impl<'a, 'i, K, V, S, M> Sync for Iter<'i, K, V, S, M>
where
    K: 'a + Eq + Hash + Sync,
    V: 'a + Sync,
    S: 'a + BuildHasher + Clone,
    M: Map<'a, K, V, S>,
{
}

impl<'a, K: Eq + Hash, V, S: 'a + BuildHasher + Clone, M: Map<'a, K, V, S>> Iter<'a, K, V, S, M> {
    pub(crate) fn new(map: &'a M) -> Self {
        Self {
            map,
            shard_i: 0,
            current: None,
            marker: PhantomData,
        }
    }
}

impl<'a, K: Eq + Hash, V, S: 'a + BuildHasher + Clone, M: Map<'a, K, V, S>> Iterator
    for Iter<'a, K, V, S, M>
{
    type Item = RefMulti<'a, K, V>;

    fn next(&mut self) -> Option<Self::Item> {
        loop {
            if let Some(current) = self.current.as_mut() {
                if let Some(b) = current.1.next() {
                    return unsafe {
                        let (k, v) = b.as_ref();
                        let guard = current.0.clone();
                        Some(RefMulti::new(guard, k, v.get()))
                    };
                }
            }

            if self.shard_i == self.map._shard_count() {
                return None;
            }

            let guard = unsafe { self.map._yield_read_shard(self.shard_i) };

            let iter = unsafe { guard.iter() };

            self.current = Some((Arc::new(guard), iter));

            self.shard_i += 1;
        }
    }
}

/// Iterator over a DashMap yielding mutable references.
///
/// # Examples
///
/// ```
/// use dashmap::DashMap;
///
/// let map = DashMap::new();
/// map.insert("Johnny", 21);
/// map.iter_mut().for_each(|mut r| *r += 1);
/// assert_eq!(*map.get("Johnny").unwrap(), 22);
/// ```
pub struct IterMut<'a, K, V, S = RandomState, M = DashMap<K, V, S>> {
    map: &'a M,
    shard_i: usize,
    current: Option<GuardIterMut<'a, K, V>>,
    marker: PhantomData<S>,
}

unsafe impl<'a, 'i, K, V, S, M> Send for IterMut<'i, K, V, S, M>
where
    K: 'a + Eq + Hash + Send,
    V: 'a + Send,
    S: 'a + BuildHasher + Clone,
    M: Map<'a, K, V, S>,
{
}

unsafe impl<'a, 'i, K, V, S, M> Sync for IterMut<'i, K, V, S, M>
where
    K: 'a + Eq + Hash + Sync,
    V: 'a + Sync,
    S: 'a + BuildHasher + Clone,
    M: Map<'a, K, V, S>,
{
}

impl<'a, K: Eq + Hash, V, S: 'a + BuildHasher + Clone, M: Map<'a, K, V, S>>
    IterMut<'a, K, V, S, M>
{
    pub(crate) fn new(map: &'a M) -> Self {
        Self {
            map,
            shard_i: 0,
            current: None,
            marker: PhantomData,
        }
    }
}

impl<'a, K: Eq + Hash, V, S: 'a + BuildHasher + Clone, M: Map<'a, K, V, S>> Iterator
    for IterMut<'a, K, V, S, M>
{
    type Item = RefMutMulti<'a, K, V>;

    fn next(&mut self) -> Option<Self::Item> {
        loop {
            if let Some(current) = self.current.as_mut() {
                if let Some(b) = current.1.next() {
                    return unsafe {
                        let (k, v) = b.as_mut();
                        let guard = current.0.clone();
                        Some(RefMutMulti::new(guard, k, v.get_mut()))
                    };
                }
            }

            if self.shard_i == self.map._shard_count() {
                return None;
            }

            let guard = unsafe { self.map._yield_write_shard(self.shard_i) };

            let iter = unsafe { guard.iter() };

            self.current = Some((Arc::new(guard), iter));

            self.shard_i += 1;
        }
    }
}

#[cfg(test)]
mod tests {
    use crate::DashMap;

    #[test]
    fn iter_mut_manual_count() {
        let map = DashMap::new();

        map.insert("Johnny", 21);

        assert_eq!(map.len(), 1);

        let mut c = 0;

        for shard in map.shards() {
            c += unsafe { shard.write().iter().count() };
        }

        assert_eq!(c, 1);
    }

    #[test]
    fn iter_mut_count() {
        let map = DashMap::new();

        map.insert("Johnny", 21);

        assert_eq!(map.len(), 1);

        assert_eq!(map.iter_mut().count(), 1);
    }

    #[test]
    fn iter_count() {
        let map = DashMap::new();

        map.insert("Johnny", 21);

        assert_eq!(map.len(), 1);

        assert_eq!(map.iter().count(), 1);
    }
}
