use crate::iter_set::{Iter, OwningIter};
#[cfg(feature = "raw-api")]
use crate::lock::RwLock;
use crate::setref::one::Ref;
use crate::DashMap;
#[cfg(feature = "raw-api")]
use crate::HashMap;
use cfg_if::cfg_if;
use core::borrow::Borrow;
use core::fmt;
use core::hash::{BuildHasher, Hash};
use core::iter::FromIterator;
#[cfg(feature = "raw-api")]
use crossbeam_utils::CachePadded;
use std::collections::hash_map::RandomState;

/// DashSet is a thin wrapper around [`DashMap`] using `()` as the value type. It uses
/// methods and types which are more convenient to work with on a set.
///
/// [`DashMap`]: struct.DashMap.html
pub struct DashSet<K, S = RandomState> {
    pub(crate) inner: DashMap<K, (), S>,
}

impl<K: Eq + Hash + fmt::Debug, S: BuildHasher + Clone> fmt::Debug for DashSet<K, S> {
    fn fmt(&self, f: &mut fmt::Formatter<'_>) -> fmt::Result {
        fmt::Debug::fmt(&self.inner, f)
    }
}

impl<K: Eq + Hash + Clone, S: Clone> Clone for DashSet<K, S> {
    fn clone(&self) -> Self {
        Self {
            inner: self.inner.clone(),
        }
    }

    fn clone_from(&mut self, source: &Self) {
        self.inner.clone_from(&source.inner)
    }
}

impl<K, S> Default for DashSet<K, S>
where
    K: Eq + Hash,
    S: Default + BuildHasher + Clone,
{
    fn default() -> Self {
        Self::with_hasher(Default::default())
    }
}

impl<'a, K: 'a + Eq + Hash> DashSet<K, RandomState> {
    /// Creates a new DashSet with a capacity of 0.
    ///
    /// # Examples
    ///
    /// ```
    /// use dashmap::DashSet;
    ///
    /// let games = DashSet::new();
    /// games.insert("Veloren");
    /// ```
    pub fn new() -> Self {
        Self::with_hasher(RandomState::default())
    }

    /// Creates a new DashMap with a specified starting capacity.
    ///
    /// # Examples
    ///
    /// ```
    /// use dashmap::DashSet;
    ///
    /// let numbers = DashSet::with_capacity(2);
    /// numbers.insert(2);
    /// numbers.insert(8);
    /// ```
    pub fn with_capacity(capacity: usize) -> Self {
        Self::with_capacity_and_hasher(capacity, RandomState::default())
    }
}

impl<'a, K: 'a + Eq + Hash, S: BuildHasher + Clone> DashSet<K, S> {
    /// Creates a new DashMap with a capacity of 0 and the provided hasher.
    ///
    /// # Examples
    ///
    /// ```
    /// use dashmap::DashSet;
    /// use std::collections::hash_map::RandomState;
    ///
    /// let s = RandomState::new();
    /// let games = DashSet::with_hasher(s);
    /// games.insert("Veloren");
    /// ```
    pub fn with_hasher(hasher: S) -> Self {
        Self::with_capacity_and_hasher(0, hasher)
    }

    /// Creates a new DashMap with a specified starting capacity and hasher.
    ///
    /// # Examples
    ///
    /// ```
    /// use dashmap::DashSet;
    /// use std::collections::hash_map::RandomState;
    ///
    /// let s = RandomState::new();
    /// let numbers = DashSet::with_capacity_and_hasher(2, s);
    /// numbers.insert(2);
    /// numbers.insert(8);
    /// ```
    pub fn with_capacity_and_hasher(capacity: usize, hasher: S) -> Self {
        Self {
            inner: DashMap::with_capacity_and_hasher(capacity, hasher),
        }
    }

    /// Hash a given item to produce a usize.
    /// Uses the provided or default HashBuilder.
    pub fn hash_usize<T: Hash>(&self, item: &T) -> usize {
        self.inner.hash_usize(item)
    }

    cfg_if! {
        if #[cfg(feature = "raw-api")] {
            /// Allows you to peek at the inner shards that store your data.
            /// You should probably not use this unless you know what you are doing.
            ///
            /// Requires the `raw-api` feature to be enabled.
            ///
            /// # Examples
            ///
            /// ```
            /// use dashmap::DashSet;
            ///
            /// let set = DashSet::<()>::new();
            /// println!("Amount of shards: {}", set.shards().len());
            /// ```
            pub fn shards(&self) -> &[CachePadded<RwLock<HashMap<K, ()>>>] {
                self.inner.shards()
            }
        }
    }

    cfg_if! {
        if #[cfg(feature = "raw-api")] {
            /// Finds which shard a certain key is stored in.
            /// You should probably not use this unless you know what you are doing.
            /// Note that shard selection is dependent on the default or provided HashBuilder.
            ///
            /// Requires the `raw-api` feature to be enabled.
            ///
            /// # Examples
            ///
            /// ```
            /// use dashmap::DashSet;
            ///
            /// let set = DashSet::new();
            /// set.insert("coca-cola");
            /// println!("coca-cola is stored in shard: {}", set.determine_map("coca-cola"));
            /// ```
            pub fn determine_map<Q>(&self, key: &Q) -> usize
            where
                K: Borrow<Q>,
                Q: Hash + Eq + ?Sized,
            {
                self.inner.determine_map(key)
            }
        }
    }

    cfg_if! {
        if #[cfg(feature = "raw-api")] {
            /// Finds which shard a certain hash is stored in.
            ///
            /// Requires the `raw-api` feature to be enabled.
            ///
            /// # Examples
            ///
            /// ```
            /// use dashmap::DashSet;
            ///
            /// let set: DashSet<i32> = DashSet::new();
            /// let key = "key";
            /// let hash = set.hash_usize(&key);
            /// println!("hash is stored in shard: {}", set.determine_shard(hash));
            /// ```
            pub fn determine_shard(&self, hash: usize) -> usize {
                self.inner.determine_shard(hash)
            }
        }
    }

    /// Inserts a key into the set. Returns true if the key was not already in the set.
    ///
    /// # Examples
    ///
    /// ```
    /// use dashmap::DashSet;
    ///
    /// let set = DashSet::new();
    /// set.insert("I am the key!");
    /// ```
    pub fn insert(&self, key: K) -> bool {
        self.inner.insert(key, ()).is_none()
    }

    /// Removes an entry from the map, returning the key if it existed in the map.
    ///
    /// # Examples
    ///
    /// ```
    /// use dashmap::DashSet;
    ///
    /// let soccer_team = DashSet::new();
    /// soccer_team.insert("Jack");
    /// assert_eq!(soccer_team.remove("Jack").unwrap(), "Jack");
    /// ```
    pub fn remove<Q>(&self, key: &Q) -> Option<K>
    where
        K: Borrow<Q>,
        Q: Hash + Eq + ?Sized,
    {
        self.inner.remove(key).map(|(k, _)| k)
    }

    /// Removes an entry from the set, returning the key
    /// if the entry existed and the provided conditional function returned true.
    ///
    /// ```
    /// use dashmap::DashSet;
    ///
    /// let soccer_team = DashSet::new();
    /// soccer_team.insert("Sam");
    /// soccer_team.remove_if("Sam", |player| player.starts_with("Ja"));
    /// assert!(soccer_team.contains("Sam"));
    /// ```
    /// ```
    /// use dashmap::DashSet;
    ///
    /// let soccer_team = DashSet::new();
    /// soccer_team.insert("Sam");
    /// soccer_team.remove_if("Jacob", |player| player.starts_with("Ja"));
    /// assert!(!soccer_team.contains("Jacob"));
    /// ```
    pub fn remove_if<Q>(&self, key: &Q, f: impl FnOnce(&K) -> bool) -> Option<K>
    where
        K: Borrow<Q>,
        Q: Hash + Eq + ?Sized,
    {
        // TODO: Don't create another closure around f
        self.inner.remove_if(key, |k, _| f(k)).map(|(k, _)| k)
    }

    /// Creates an iterator over a DashMap yielding immutable references.
    ///
    /// # Examples
    ///
    /// ```
    /// use dashmap::DashSet;
    ///
    /// let words = DashSet::new();
    /// words.insert("hello");
    /// assert_eq!(words.iter().count(), 1);
    /// ```
    pub fn iter(&'a self) -> Iter<'a, K, S, DashMap<K, (), S>> {
        let iter = self.inner.iter();

        Iter::new(iter)
    }

    /// Get a reference to an entry in the set
    ///
    /// # Examples
    ///
    /// ```
    /// use dashmap::DashSet;
    ///
    /// let youtubers = DashSet::new();
    /// youtubers.insert("Bosnian Bill");
    /// assert_eq!(*youtubers.get("Bosnian Bill").unwrap(), "Bosnian Bill");
    /// ```
    pub fn get<Q>(&'a self, key: &Q) -> Option<Ref<'a, K>>
    where
        K: Borrow<Q>,
        Q: Hash + Eq + ?Sized,
    {
        self.inner.get(key).map(Ref::new)
    }

    /// Remove excess capacity to reduce memory usage.
    pub fn shrink_to_fit(&self) {
        self.inner.shrink_to_fit()
    }

    /// Retain elements that whose predicates return true
    /// and discard elements whose predicates return false.
    ///
    /// # Examples
    ///
    /// ```
    /// use dashmap::DashSet;
    ///
    /// let people = DashSet::new();
    /// people.insert("Albin");
    /// people.insert("Jones");
    /// people.insert("Charlie");
    /// people.retain(|name| name.contains('i'));
    /// assert_eq!(people.len(), 2);
    /// ```
    pub fn retain(&self, mut f: impl FnMut(&K) -> bool) {
        self.inner.retain(|k, _| f(k))
    }

    /// Fetches the total number of keys stored in the set.
    ///
    /// # Examples
    ///
    /// ```
    /// use dashmap::DashSet;
    ///
    /// let people = DashSet::new();
    /// people.insert("Albin");
    /// people.insert("Jones");
    /// people.insert("Charlie");
    /// assert_eq!(people.len(), 3);
    /// ```
    pub fn len(&self) -> usize {
        self.inner.len()
    }

    /// Checks if the set is empty or not.
    ///
    /// # Examples
    ///
    /// ```
    /// use dashmap::DashSet;
    ///
    /// let map = DashSet::<()>::new();
    /// assert!(map.is_empty());
    /// ```
    pub fn is_empty(&self) -> bool {
        self.inner.is_empty()
    }

    /// Removes all keys in the set.
    ///
    /// # Examples
    ///
    /// ```
    /// use dashmap::DashSet;
    ///
    /// let people = DashSet::new();
    /// people.insert("Albin");
    /// assert!(!people.is_empty());
    /// people.clear();
    /// assert!(people.is_empty());
    /// ```
    pub fn clear(&self) {
        self.inner.clear()
    }

    /// Returns how many keys the set can store without reallocating.
    pub fn capacity(&self) -> usize {
        self.inner.capacity()
    }

    /// Checks if the set contains a specific key.
    ///
    /// # Examples
    ///
    /// ```
    /// use dashmap::DashSet;
    ///
    /// let people = DashSet::new();
    /// people.insert("Dakota Cherries");
    /// assert!(people.contains("Dakota Cherries"));
    /// ```
    pub fn contains<Q>(&self, key: &Q) -> bool
    where
        K: Borrow<Q>,
        Q: Hash + Eq + ?Sized,
    {
        self.inner.contains_key(key)
    }
}

impl<K: Eq + Hash, S: BuildHasher + Clone> IntoIterator for DashSet<K, S> {
    type Item = K;

    type IntoIter = OwningIter<K, S>;

    fn into_iter(self) -> Self::IntoIter {
        OwningIter::new(self.inner.into_iter())
    }
}

impl<K: Eq + Hash, S: BuildHasher + Clone> Extend<K> for DashSet<K, S> {
    fn extend<T: IntoIterator<Item = K>>(&mut self, iter: T) {
        let iter = iter.into_iter().map(|k| (k, ()));

        self.inner.extend(iter)
    }
}

impl<K: Eq + Hash, S: BuildHasher + Clone + Default> FromIterator<K> for DashSet<K, S> {
    fn from_iter<I: IntoIterator<Item = K>>(iter: I) -> Self {
        let mut set = DashSet::default();

        set.extend(iter);

        set
    }
}

#[cfg(feature = "typesize")]
impl<K, S> typesize::TypeSize for DashSet<K, S>
where
    K: typesize::TypeSize + Eq + Hash,
    S: typesize::TypeSize + Clone + BuildHasher,
{
    fn extra_size(&self) -> usize {
        self.inner.extra_size()
    }

    typesize::if_typesize_details! {
        fn get_collection_item_count(&self) -> Option<usize> {
            Some(self.len())
        }
    }
}

#[cfg(test)]
mod tests {
    use crate::DashSet;

    #[test]
    fn test_basic() {
        let set = DashSet::new();

        set.insert(0);

        assert_eq!(set.get(&0).as_deref(), Some(&0));
    }

    #[test]
    fn test_default() {
        let set: DashSet<u32> = DashSet::default();

        set.insert(0);

        assert_eq!(set.get(&0).as_deref(), Some(&0));
    }

    #[test]
    fn test_multiple_hashes() {
        let set = DashSet::<u32>::default();

        for i in 0..100 {
            assert!(set.insert(i));
        }

        for i in 0..100 {
            assert!(!set.insert(i));
        }

        for i in 0..100 {
            assert_eq!(Some(i), set.remove(&i));
        }

        for i in 0..100 {
            assert_eq!(None, set.remove(&i));
        }
    }
}
