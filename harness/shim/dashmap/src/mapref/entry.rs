use super::one::RefMut;
use crate::lock::RwLockWriteGuard;
use crate::util::SharedValue;
use crate::HashMap;
use core::hash::Hash;
use core::mem;

pub enum Entry<'a, K, V> {
    Occupied(OccupiedEntry<'a, K, V>),
    Vacant(VacantEntry<'a, K, V>),
}

impl<'a, K: Eq + Hash, V> Entry<'a, K, V> {
    /// Apply a function to the stored value if it exists.
    pub fn and_modify(self, f: impl FnOnce(&mut V)) -> Self {
        match self {
            Entry::Occupied(mut entry) => {
                f(entry.get_mut());

                Entry::Occupied(entry)
            }

            Entry::Vacant(entry) => Entry::Vacant(entry),
        }
    }

    /// Get the key of the entry.
    pub fn key(&self) -> &K {
        match *self {
            Entry::Occupied(ref entry) => entry.key(),
            Entry::Vacant(ref entry) => entry.key(),
        }
    }

    /// Into the key of the entry.
    pub fn into_key(self) -> K {
        match self {
            Entry::Occupied(entry) => entry.into_key(),
            Entry::Vacant(entry) => entry.into_key(),
        }
    }

    /// Return a mutable reference to the element if it exists,
    /// otherwise insert the default and return a mutable reference to that.
    pub fn or_default(self) -> RefMut<'a, K, V>
    where
        V: Default,
    {
        match self {
            Entry::Occupied(entry) => entry.into_ref(),
            Entry::Vacant(entry) => entry.insert(V::default()),
        }
    }

    /// Return a mutable reference to the element if it exists,
    /// otherwise a provided value and return a mutable reference to that.
    pub fn or_insert(self, value: V) -> RefMut<'a, K, V> {
        match self {
            Entry::Occupied(entry) => entry.into_ref(),
            Entry::Vacant(entry) => entry.insert(value),
        }
    }

    /// Return a mutable reference to the element if it exists,
    /// otherwise insert the result of a provided function and return a mutable reference to that.
    pub fn or_insert_with(self, value: impl FnOnce() -> V) -> RefMut<'a, K, V> {
        match self {
            Entry::Occupied(entry) => entry.into_ref(),
            Entry::Vacant(entry) => entry.insert(value()),
        }
    }

    pub fn or_try_insert_with<E>(
        self,
        value: impl FnOnce() -> Result<V, E>,
    ) -> Result<RefMut<'a, K, V>, E> {
        match self {
            Entry::Occupied(entry) => Ok(entry.into_ref()),
            Entry::Vacant(entry) => Ok(entry.insert(value()?)),
        }
    }

    /// Sets the value of the entry, and returns a reference to the inserted value.
    pub fn insert(self, value: V) -> RefMut<'a, K, V> {
        match self {
            Entry::Occupied(mut entry) => {
                entry.insert(value);
                entry.into_ref()
            }
            Entry::Vacant(entry) => entry.insert(value),
        }
    }

    /// Sets the value of the entry, and returns an OccupiedEntry.
    ///
    /// If you are not interested in the occupied entry,
    /// consider [`insert`] as it doesn't need to clone the key.
    ///
    /// [`insert`]: Entry::insert
    pub fn insert_entry(self, value: V) -> OccupiedEntry<'a, K, V>
    where
        K: Clone,
    {
        match self {
            Entry::Occupied(mut entry) => {
                entry.insert(value);
                entry
            }
            Entry::Vacant(entry) => entry.insert_entry(value),
        }
    }
}

pub struct VacantEntry<'a, K, V> {
    shard: RwLockWriteGuard<'a, HashMap<K, V>>,
    key: K,
    hash: u64,
    slot: hashbrown::raw::InsertSlot,
}

unsafe impl<'a, K: Eq + Hash + Sync, V: Sync> Send for VacantEntry<'a, K, V> {}
unsafe impl<'a, K: Eq + Hash + Sync, V: Sync> Sync for VacantEntry<'a, K, V> {}

impl<'a, K: Eq + Hash, V> VacantEntry<'a, K, V> {
    pub(crate) unsafe fn new(
        shard: RwLockWriteGuard<'a, HashMap<K, V>>,
        key: K,
        hash: u64,
        slot: hashbrown::raw::InsertSlot,
    ) -> Self {
        Self {
            shard,
            key,
            hash,
            slot,
        }
    }

    pub fn insert(mut self, value: V) -> RefMut<'a, K, V> {
        unsafe {
            let occupied = self.shard.insert_in_slot(
                self.hash,
                self.slot,
                (self.key, SharedValue::new(value)),
            );

            let (k, v) = occupied.as_ref();

            RefMut::new(self.shard, k, v.as_ptr())
        }
    }

    /// Sets the value of the entry with the VacantEntry’s key, and returns an OccupiedEntry.
    pub fn insert_entry(mut self, value: V) -> OccupiedEntry<'a, K, V>
    where
        K: Clone,
    {
        unsafe {
            let bucket = self.shard.insert_in_slot(
                self.hash,
                self.slot,
                (self.key.clone(), SharedValue::new(value)),
            );

            OccupiedEntry::new(self.shard, self.key, bucket)
        }
    }

    pub fn into_key(self) -> K {
        self.key
    }

    pub fn key(&self) -> &K {
        &self.key
    }
}

pub struct OccupiedEntry<'a, K, V> {
    shard: RwLockWriteGuard<'a, HashMap<K, V>>,
    bucket: hashbrown::raw::Bucket<(K, SharedValue<V>)>,
    key: K,
}

unsafe impl<'a, K: Eq + Hash + Sync, V: Sync> Send for OccupiedEntry<'a, K, V> {}
unsafe impl<'a, K: Eq + Hash + Sync, V: Sync> Sync for OccupiedEntry<'a, K, V> {}

impl<'a, K: Eq + Hash, V> OccupiedEntry<'a, K, V> {
    pub(crate) unsafe fn new(
        shard: RwLockWriteGuard<'a, HashMap<K, V>>,
        key: K,
        bucket: hashbrown::raw::Bucket<(K, SharedValue<V>)>,
    ) -> Self {
        Self { shard, bucket, key }
    }

    pub fn get(&self) -> &V {
        unsafe { self.bucket.as_ref().1.get() }
    }

    pub fn get_mut(&mut self) -> &mut V {
        unsafe { self.bucket.as_mut().1.get_mut() }
    }

    pub fn insert(&mut self, value: V) -> V {
        mem::replace(self.get_mut(), value)
    }

    pub fn into_ref(self) -> RefMut<'a, K, V> {
        unsafe {
            let (k, v) = self.bucket.as_ref();
            RefMut::new(self.shard, k, v.as_ptr())
        }
    }

    pub fn into_key(self) -> K {
        self.key
    }

    pub fn key(&self) -> &K {
        unsafe { &self.bucket.as_ref().0 }
    }

    pub fn remove(mut self) -> V {
        let ((_k, v), _) = unsafe { self.shard.remove(self.bucket) };
        v.into_inner()
    }

    pub fn remove_entry(mut self) -> (K, V) {
        let ((k, v), _) = unsafe { self.shard.remove(self.bucket) };
        (k, v.into_inner())
    }

    pub fn replace_entry(self, value: V) -> (K, V) {
        let (k, v) = mem::replace(
            unsafe { self.bucket.as_mut() },
            (self.key, SharedValue::new(value)),
        );
        (k, v.into_inner())
    }
}

#[cfg(test)]
mod tests {
    use crate::DashMap;

    use super::*;

    #[test]
    fn test_insert_entry_into_vacant() {
        let map: DashMap<u32, u32> = DashMap::new();

        let entry = map.entry(1);

        assert!(matches!(entry, Entry::Vacant(_)));

        let entry = entry.insert_entry(2);

        assert_eq!(*entry.get(), 2);

        drop(entry);

        assert_eq!(*map.get(&1).unwrap(), 2);
    }

    #[test]
    fn test_insert_entry_into_occupied() {
        let map: DashMap<u32, u32> = DashMap::new();

        map.insert(1, 1000);

        let entry = map.entry(1);

        assert!(matches!(&entry, Entry::Occupied(entry) if *entry.get() == 1000));

        let entry = entry.insert_entry(2);

        assert_eq!(*entry.get(), 2);

        drop(entry);

        assert_eq!(*map.get(&1).unwrap(), 2);
    }
}
