pub mod entry;
pub mod multiple;
pub mod one;
