use crate::lock::{RwLockReadGuard, RwLockWriteGuard};
use crate::HashMap;
use core::hash::Hash;
use core::ops::{Deref, DerefMut};
use std::sync::Arc;

pub struct RefMulti<'a, K, V> {
    _guard: Arc<RwLockReadGuard<'a, HashMap<K, V>>>,
    k: *const K,
    v: *const V,
}

unsafe impl<'a, K: Eq + Hash + Sync, V: Sync> Send for RefMulti<'a, K, V> {}
unsafe impl<'a, K: Eq + Hash + Sync, V: Sync> Sync for RefMulti<'a, K, V> {}

impl<'a, K: Eq + Hash, V> RefMulti<'a, K, V> {
    pub(crate) unsafe fn new(
        guard: Arc<RwLockReadGuard<'a, HashMap<K, V>>>,
        k: *const K,
        v: *const V,
    ) -> Self {
        Self {
            _guard: guard,
            k,
            v,
        }
    }

    pub fn key(&self) -> &K {
        self.pair().0
    }

    pub fn value(&self) -> &V {
        self.pair().1
    }

    pub fn pair(&self) -> (&K, &V) {
        unsafe { (&*self.k, &*self.v) }
    }
}

impl<'a, K: Eq + Hash, V> Deref for RefMulti<'a, K, V> {
    type Target = V;

    fn deref(&self) -> &V {
        self.value()
    }
}

pub struct RefMutMulti<'a, K, V> {
    _guard: Arc<RwLockWriteGuard<'a, HashMap<K, V>>>,
    k: *const K,
    v: *mut V,
}

unsafe impl<'a, K: Eq + Hash + Sync, V: Sync> Send for RefMutMulti<'a, K, V> {}
unsafe impl<'a, K: Eq + Hash + Sync, V: Sync> Sync for RefMutMulti<'a, K, V> {}

impl<'a, K: Eq + Hash, V> RefMutMulti<'a, K, V> {
    pub(crate) unsafe fn new(
        guard: Arc<RwLockWriteGuard<'a, HashMap<K, V>>>,
        k: *const K,
        v: *mut V,
    ) -> Self {
        Self {
            _guard: guard,
            k,
            v,
        }
    }

    pub fn key(&self) -> &K {
        self.pair().0
    }

    pub fn value(&self) -> &V {
        self.pair().1
    }

    pub fn value_mut(&mut self) -> &mut V {
        self.pair_mut().1
    }

    pub fn pair(&self) -> (&K, &V) {
        unsafe { (&*self.k, &*self.v) }
    }

    pub fn pair_mut(&mut self) -> (&K, &mut V) {
        unsafe { (&*self.k, &mut *self.v) }
    }
}

impl<'a, K: Eq + Hash, V> Deref for RefMutMulti<'a, K, V> {
    type Target = V;

    fn deref(&self) -> &V {
        self.value()
    }
}

impl<'a, K: Eq + Hash, V> DerefMut for RefMutMulti<'a, K, V> {
    fn deref_mut(&mut self) -> &mut V {
        self.value_mut()
    }
}
