use crate::lock::{RwLockReadGuard, RwLockWriteGuard};
use crate::HashMap;
use core::hash::Hash;
use core::ops::{Deref, DerefMut};
use std::fmt::{Debug, Formatter};

pub struct Ref<'a, K, V> {
    _guard: RwLockReadGuard<'a, HashMap<K, V>>,
    k: *const K,
    v: *const V,
}

unsafe impl<'a, K: Eq + Hash + Sync, V: Sync> Send for Ref<'a, K, V> {}
unsafe impl<'a, K: Eq + Hash + Sync, V: Sync> Sync for Ref<'a, K, V> {}

impl<'a, K: Eq + Hash, V> Ref<'a, K, V> {
    pub(crate) unsafe fn new(
        guard: RwLockReadGuard<'a, HashMap<K, V>>,
        k: *const K,
        v: *const V,
    ) -> Self {
        Self {
            _guard: guard,
            k,
            v,
        }
    }

    pub fn key(&self) -> &K {
        self.pair().0
    }

    pub fn value(&self) -> &V {
        self.pair().1
    }

    pub fn pair(&self) -> (&K, &V) {
        unsafe { (&*self.k, &*self.v) }
    }

    pub fn map<F, T>(self, f: F) -> MappedRef<'a, K, V, T>
    where
        F: FnOnce(&V) -> &T,
    {
        MappedRef {
            _guard: self._guard,
            k: self.k,
            v: f(unsafe { &*self.v }),
        }
    }

    pub fn try_map<F, T>(self, f: F) -> Result<MappedRef<'a, K, V, T>, Self>
    where
        F: FnOnce(&V) -> Option<&T>,
    {
        if let Some(v) = f(unsafe { &*self.v }) {
            Ok(MappedRef {
                _guard: self._guard,
                k: self.k,
                v,
            })
        } else {
            Err(self)
        }
    }
}

impl<'a, K: Eq + Hash + Debug, V: Debug> Debug for Ref<'a, K, V> {
    fn fmt(&self, f: &mut Formatter<'_>) -> std::fmt::Result {
        f.debug_struct("Ref")
            .field("k", &self.k)
            .field("v", &self.v)
            .finish()
    }
}

impl<'a, K: Eq + Hash, V> Deref for Ref<'a, K, V> {
    type Target = V;

    fn deref(&self) -> &V {
        self.value()
    }
}

pub struct RefMut<'a, K, V> {
    guard: RwLockWriteGuard<'a, HashMap<K, V>>,
    k: *const K,
    v: *mut V,
}

unsafe impl<'a, K: Eq + Hash + Sync, V: Sync> Send for RefMut<'a, K, V> {}
unsafe impl<'a, K: Eq + Hash + Sync, V: Sync> Sync for RefMut<'a, K, V> {}

impl<'a, K: Eq + Hash, V> RefMut<'a, K, V> {
    pub(crate) unsafe fn new(
        guard: RwLockWriteGuard<'a, HashMap<K, V>>,
        k: *const K,
        v: *mut V,
    ) -> Self {
        Self { guard, k, v }
    }

    pub fn key(&self) -> &K {
        self.pair().0
    }

    pub fn value(&self) -> &V {
        self.pair().1
    }

    pub fn value_mut(&mut self) -> &mut V {
        self.pair_mut().1
    }

    pub fn pair(&self) -> (&K, &V) {
        unsafe { (&*self.k, &*self.v) }
    }

    pub fn pair_mut(&mut self) -> (&K, &mut V) {
        unsafe { (&*self.k, &mut *self.v) }
    }

    pub fn downgrade(self) -> Ref<'a, K, V> {
        unsafe { Ref::new(RwLockWriteGuard::downgrade(self.guard), self.k, self.v) }
    }

    pub fn map<F, T>(self, f: F) -> MappedRefMut<'a, K, V, T>
    where
        F: FnOnce(&mut V) -> &mut T,
    {
        MappedRefMut {
            _guard: self.guard,
            k: self.k,
            v: f(unsafe { &mut *self.v }),
        }
    }

    pub fn try_map<F, T>(self, f: F) -> Result<MappedRefMut<'a, K, V, T>, Self>
    where
        F: FnOnce(&mut V) -> Option<&mut T>,
    {
        let v = match f(unsafe { &mut *(self.v as *mut _) }) {
            Some(v) => v,
            None => return Err(self),
        };
        let guard = self.guard;
        let k = self.k;
        Ok(MappedRefMut {
            _guard: guard,
            k,
            v,
        })
    }
}

impl<'a, K: Eq + Hash + Debug, V: Debug> Debug for RefMut<'a, K, V> {
    fn fmt(&self, f: &mut Formatter<'_>) -> std::fmt::Result {
        f.debug_struct("RefMut")
            .field("k", &self.k)
            .field("v", &self.v)
            .finish()
    }
}

impl<'a, K: Eq + Hash, V> Deref for RefMut<'a, K, V> {
    type Target = V;

    fn deref(&self) -> &V {
        self.value()
    }
}

impl<'a, K: Eq + Hash, V> DerefMut for RefMut<'a, K, V> {
    fn deref_mut(&mut self) -> &mut V {
        self.value_mut()
    }
}

pub struct MappedRef<'a, K, V, T> {
    _guard: RwLockReadGuard<'a, HashMap<K, V>>,
    k: *const K,
    v: *const T,
}

impl<'a, K: Eq + Hash, V, T> MappedRef<'a, K, V, T> {
    pub fn key(&self) -> &K {
        self.pair().0
    }

    pub fn value(&self) -> &T {
        self.pair().1
    }

    pub fn pair(&self) -> (&K, &T) {
        unsafe { (&*self.k, &*self.v) }
    }

    pub fn map<F, T2>(self, f: F) -> MappedRef<'a, K, V, T2>
    where
        F: FnOnce(&T) -> &T2,
    {
        MappedRef {
            _guard: self._guard,
            k: self.k,
            v: f(unsafe { &*self.v }),
        }
    }

    pub fn try_map<F, T2>(self, f: F) -> Result<MappedRef<'a, K, V, T2>, Self>
    where
        F: FnOnce(&T) -> Option<&T2>,
    {
        let v = match f(unsafe { &*self.v }) {
            Some(v) => v,
            None => return Err(self),
        };
        let guard = self._guard;
        Ok(MappedRef {
            _guard: guard,
            k: self.k,
            v,
        })
    }
}

impl<'a, K: Eq + Hash + Debug, V, T: Debug> Debug for MappedRef<'a, K, V, T> {
    fn fmt(&self, f: &mut Formatter<'_>) -> std::fmt::Result {
        f.debug_struct("MappedRef")
            .field("k", &self.k)
            .field("v", &self.v)
            .finish()
    }
}

impl<'a, K: Eq + Hash, V, T> Deref for MappedRef<'a, K, V, T> {
    type Target = T;

    fn deref(&self) -> &T {
        self.value()
    }
}

impl<'a, K: Eq + Hash, V, T: std::fmt::Display> std::fmt::Display for MappedRef<'a, K, V, T> {
    fn fmt(&self, f: &mut std::fmt::Formatter<'_>) -> std::fmt::Result {
        std::fmt::Display::fmt(self.value(), f)
    }
}

impl<'a, K: Eq + Hash, V, T: AsRef<TDeref>, TDeref: ?Sized> AsRef<TDeref>
    for MappedRef<'a, K, V, T>
{
    fn as_ref(&self) -> &TDeref {
        self.value().as_ref()
    }
}

pub struct MappedRefMut<'a, K, V, T> {
    _guard: RwLockWriteGuard<'a, HashMap<K, V>>,
    k: *const K,
    v: *mut T,
}

impl<'a, K: Eq + Hash, V, T> MappedRefMut<'a, K, V, T> {
    pub fn key(&self) -> &K {
        self.pair().0
    }

    pub fn value(&self) -> &T {
        self.pair().1
    }

    pub fn value_mut(&mut self) -> &mut T {
        self.pair_mut().1
    }

    pub fn pair(&self) -> (&K, &T) {
        unsafe { (&*self.k, &*self.v) }
    }

    pub fn pair_mut(&mut self) -> (&K, &mut T) {
        unsafe { (&*self.k, &mut *self.v) }
    }

    pub fn map<F, T2>(self, f: F) -> MappedRefMut<'a, K, V, T2>
    where
        F: FnOnce(&mut T) -> &mut T2,
    {
        MappedRefMut {
            _guard: self._guard,
            k: self.k,
            v: f(unsafe { &mut *self.v }),
        }
    }

    pub fn try_map<F, T2>(self, f: F) -> Result<MappedRefMut<'a, K, V, T2>, Self>
    where
        F: FnOnce(&mut T) -> Option<&mut T2>,
    {
        let v = match f(unsafe { &mut *(self.v as *mut _) }) {
            Some(v) => v,
            None => return Err(self),
        };
        let guard = self._guard;
        let k = self.k;
        Ok(MappedRefMut {
            _guard: guard,
            k,
            v,
        })
    }
}

impl<'a, K: Eq + Hash + Debug, V, T: Debug> Debug for MappedRefMut<'a, K, V, T> {
    fn fmt(&self, f: &mut Formatter<'_>) -> std::fmt::Result {
        f.debug_struct("MappedRefMut")
            .field("k", &self.k)
            .field("v", &self.v)
            .finish()
    }
}

impl<'a, K: Eq + Hash, V, T> Deref for MappedRefMut<'a, K, V, T> {
    type Target = T;

    fn deref(&self) -> &T {
        self.value()
    }
}

impl<'a, K: Eq + Hash, V, T> DerefMut for MappedRefMut<'a, K, V, T> {
    fn deref_mut(&mut self) -> &mut T {
        self.value_mut()
    }
}
