//! Central map trait to ease modifications and extensions down the road.

use crate::iter::{Iter, IterMut};
use crate::lock::{RwLockReadGuard, RwLockWriteGuard};
use crate::mapref::entry::Entry;
use crate::mapref::one::{Ref, RefMut};
use crate::try_result::TryResult;
use crate::HashMap;
use core::borrow::Borrow;
use core::hash::{BuildHasher, Hash};

/// Implementation detail that is exposed due to generic constraints in public types.
pub trait Map<'a, K: 'a + Eq + Hash, V: 'a, S: 'a + Clone + BuildHasher> {
    fn _shard_count(&self) -> usize;

    /// # Safety
    ///
    /// The index must not be out of bounds.
    unsafe fn _get_read_shard(&'a self, i: usize) -> &'a HashMap<K, V>;

    /// # Safety
    ///
    /// The index must not be out of bounds.
    unsafe fn _yield_read_shard(&'a self, i: usize) -> RwLockReadGuard<'a, HashMap<K, V>>;

    /// # Safety
    ///
    /// The index must not be out of bounds.
    unsafe fn _yield_write_shard(&'a self, i: usize) -> RwLockWriteGuard<'a, HashMap<K, V>>;

    /// # Safety
    ///
    /// The index must not be out of bounds.
    unsafe fn _try_yield_read_shard(
        &'a self,
        i: usize,
    ) -> Option<RwLockReadGuard<'a, HashMap<K, V>>>;

    /// # Safety
    ///
    /// The index must not be out of bounds.
    unsafe fn _try_yield_write_shard(
        &'a self,
        i: usize,
    ) -> Option<RwLockWriteGuard<'a, HashMap<K, V>>>;

    fn _insert(&self, key: K, value: V) -> Option<V>;

    fn _remove<Q>(&self, key: &Q) -> Option<(K, V)>
    where
        K: Borrow<Q>,
        Q: Hash + Eq + ?Sized;

    fn _remove_if<Q>(&self, key: &Q, f: impl FnOnce(&K, &V) -> bool) -> Option<(K, V)>
    where
        K: Borrow<Q>,
        Q: Hash + Eq + ?Sized;

    fn _remove_if_mut<Q>(&self, key: &Q, f: impl FnOnce(&K, &mut V) -> bool) -> Option<(K, V)>
    where
        K: Borrow<Q>,
        Q: Hash + Eq + ?Sized;

    fn _iter(&'a self) -> Iter<'a, K, V, S, Self>
    where
        Self: Sized;

    fn _iter_mut(&'a self) -> IterMut<'a, K, V, S, Self>
    where
        Self: Sized;

    fn _get<Q>(&'a self, key: &Q) -> Option<Ref<'a, K, V>>
    where
        K: Borrow<Q>,
        Q: Hash + Eq + ?Sized;

    fn _get_mut<Q>(&'a self, key: &Q) -> Option<RefMut<'a, K, V>>
    where
        K: Borrow<Q>,
        Q: Hash + Eq + ?Sized;

    fn _try_get<Q>(&'a self, key: &Q) -> TryResult<Ref<'a, K, V>>
    where
        K: Borrow<Q>,
        Q: Hash + Eq + ?Sized;

    fn _try_get_mut<Q>(&'a self, key: &Q) -> TryResult<RefMut<'a, K, V>>
    where
        K: Borrow<Q>,
        Q: Hash + Eq + ?Sized;

    fn _shrink_to_fit(&self);

    fn _retain(&self, f: impl FnMut(&K, &mut V) -> bool);

    fn _len(&self) -> usize;

    fn _capacity(&self) -> usize;

    fn _alter<Q>(&self, key: &Q, f: impl FnOnce(&K, V) -> V)
    where
        K: Borrow<Q>,
        Q: Hash + Eq + ?Sized;

    fn _alter_all(&self, f: impl FnMut(&K, V) -> V);

    fn _view<Q, R>(&self, key: &Q, f: impl FnOnce(&K, &V) -> R) -> Option<R>
    where
        K: Borrow<Q>,
        Q: Hash + Eq + ?Sized;

    fn _entry(&'a self, key: K) -> Entry<'a, K, V>;

    fn _try_entry(&'a self, key: K) -> Option<Entry<'a, K, V>>;

    fn _hasher(&self) -> S;

    // provided
    fn _clear(&self) {
        self._retain(|_, _| false)
    }

    fn _contains_key<Q>(&'a self, key: &Q) -> bool
    where
        K: Borrow<Q>,
        Q: Hash + Eq + ?Sized,
    {
        self._get(key).is_some()
    }

    fn _is_empty(&self) -> bool {
        self._len() == 0
    }
}
