use crate::mapref;
use core::hash::Hash;
use core::ops::Deref;

pub struct RefMulti<'a, K> {
    inner: mapref::multiple::RefMulti<'a, K, ()>,
}

impl<'a, K: Eq + Hash> RefMulti<'a, K> {
    pub(crate) fn new(inner: mapref::multiple::RefMulti<'a, K, ()>) -> Self {
        Self { inner }
    }

    pub fn key(&self) -> &K {
        self.inner.key()
    }
}

impl<'a, K: Eq + Hash> Deref for RefMulti<'a, K> {
    type Target = K;

    fn deref(&self) -> &K {
        self.key()
    }
}
