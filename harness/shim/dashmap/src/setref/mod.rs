pub mod multiple;
pub mod one;
