use crate::mapref;
use core::hash::Hash;
use core::ops::Deref;

pub struct Ref<'a, K> {
    inner: mapref::one::Ref<'a, K, ()>,
}

impl<'a, K: Eq + Hash> Ref<'a, K> {
    pub(crate) fn new(inner: mapref::one::Ref<'a, K, ()>) -> Self {
        Self { inner }
    }

    pub fn key(&self) -> &K {
        self.inner.key()
    }
}

impl<'a, K: Eq + Hash> Deref for Ref<'a, K> {
    type Target = K;

    fn deref(&self) -> &K {
        self.key()
    }
}
