use arbitrary::{Arbitrary, Unstructured};
use core::hash::BuildHasher;

impl<'a, K, V, S> Arbitrary<'a> for crate::DashMap<K, V, S>
where
    K: Eq + std::hash::Hash + Arbitrary<'a>,
    V: Arbitrary<'a>,
    S: Default + BuildHasher + Clone,
{
    fn arbitrary(u: &mut Unstructured<'a>) -> arbitrary::Result<Self> {
        u.arbitrary_iter()?.collect()
    }
}
