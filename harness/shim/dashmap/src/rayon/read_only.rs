use crate::mapref::multiple::RefMulti;
use crate::rayon::map::Iter;
use crate::ReadOnlyView;
use core::hash::{BuildHasher, Hash};
use rayon::iter::IntoParallelIterator;

impl<K, V, S> IntoParallelIterator for ReadOnlyView<K, V, S>
where
    K: Send + Eq + Hash,
    V: Send,
    S: Send + Clone + BuildHasher,
{
    type Iter = super::map::OwningIter<K, V>;
    type Item = (K, V);

    fn into_par_iter(self) -> Self::Iter {
        super::map::OwningIter {
            shards: self.map.shards,
        }
    }
}

// This impl also enables `IntoParallelRefIterator::par_iter`
impl<'a, K, V, S> IntoParallelIterator for &'a ReadOnlyView<K, V, S>
where
    K: Send + Sync + Eq + Hash,
    V: Send + Sync,
    S: Send + Sync + Clone + BuildHasher,
{
    type Iter = Iter<'a, K, V>;
    type Item = RefMulti<'a, K, V>;

    fn into_par_iter(self) -> Self::Iter {
        Iter {
            shards: &self.map.shards,
        }
    }
}

#[cfg(test)]
mod tests {
    use crate::DashMap;
    use rayon::iter::{IntoParallelIterator, IntoParallelRefIterator, ParallelIterator};

    fn construct_sample_map() -> DashMap<i32, String> {
        let map = DashMap::new();

        map.insert(1, "one".to_string());

        map.insert(10, "ten".to_string());

        map.insert(27, "twenty seven".to_string());

        map.insert(45, "forty five".to_string());

        map
    }

    #[test]
    fn test_par_iter() {
        let map = construct_sample_map();

        let view = map.clone().into_read_only();

        view.par_iter().for_each(|entry| {
            let key = *entry.key();

            assert!(view.contains_key(&key));

            let map_entry = map.get(&key).unwrap();

            assert_eq!(view.get(&key).unwrap(), map_entry.value());

            let key_value: (&i32, &String) = view.get_key_value(&key).unwrap();

            assert_eq!(key_value.0, map_entry.key());

            assert_eq!(key_value.1, map_entry.value());
        });
    }

    #[test]
    fn test_into_par_iter() {
        let map = construct_sample_map();

        let view = map.clone().into_read_only();

        view.into_par_iter().for_each(|(key, value)| {
            let map_entry = map.get(&key).unwrap();

            assert_eq!(&key, map_entry.key());

            assert_eq!(&value, map_entry.value());
        });
    }
}
