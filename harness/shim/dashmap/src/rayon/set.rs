use crate::setref::multiple::RefMulti;
use crate::DashSet;
use core::hash::{BuildHasher, Hash};
use rayon::iter::plumbing::UnindexedConsumer;
use rayon::iter::{FromParallelIterator, IntoParallelIterator, ParallelExtend, ParallelIterator};

impl<K, S> ParallelExtend<K> for DashSet<K, S>
where
    K: Send + Sync + Eq + Hash,
    S: Send + Sync + Clone + BuildHasher,
{
    fn par_extend<I>(&mut self, par_iter: I)
    where
        I: IntoParallelIterator<Item = K>,
    {
        (&*self).par_extend(par_iter);
    }
}

// Since we don't actually need mutability, we can implement this on a
// reference, similar to `io::Write for &File`.
impl<K, S> ParallelExtend<K> for &'_ DashSet<K, S>
where
    K: Send + Sync + Eq + Hash,
    S: Send + Sync + Clone + BuildHasher,
{
    fn par_extend<I>(&mut self, par_iter: I)
    where
        I: IntoParallelIterator<Item = K>,
    {
        let &mut set = self;
        par_iter.into_par_iter().for_each(move |key| {
            set.insert(key);
        });
    }
}

impl<K, S> FromParallelIterator<K> for DashSet<K, S>
where
    K: Send + Sync + Eq + Hash,
    S: Send + Sync + Clone + Default + BuildHasher,
{
    fn from_par_iter<I>(par_iter: I) -> Self
    where
        I: IntoParallelIterator<Item = K>,
    {
        let set = Self::default();
        (&set).par_extend(par_iter);
        set
    }
}

impl<K, S> IntoParallelIterator for DashSet<K, S>
where
    K: Send + Eq + Hash,
    S: Send + Clone + BuildHasher,
{
    type Iter = OwningIter<K>;
    type Item = K;

    fn into_par_iter(self) -> Self::Iter {
        OwningIter {
            inner: self.inner.into_par_iter(),
        }
    }
}

pub struct OwningIter<K> {
    inner: super::map::OwningIter<K, ()>,
}

impl<K> ParallelIterator for OwningIter<K>
where
    K: Send + Eq + Hash,
{
    type Item = K;

    fn drive_unindexed<C>(self, consumer: C) -> C::Result
    where
        C: UnindexedConsumer<Self::Item>,
    {
        self.inner.map(|(k, _)| k).drive_unindexed(consumer)
    }
}

// This impl also enables `IntoParallelRefIterator::par_iter`
impl<'a, K, S> IntoParallelIterator for &'a DashSet<K, S>
where
    K: Send + Sync + Eq + Hash,
    S: Send + Sync + Clone + BuildHasher,
{
    type Iter = Iter<'a, K>;
    type Item = RefMulti<'a, K>;

    fn into_par_iter(self) -> Self::Iter {
        Iter {
            inner: (&self.inner).into_par_iter(),
        }
    }
}

pub struct Iter<'a, K> {
    inner: super::map::Iter<'a, K, ()>,
}

impl<'a, K> ParallelIterator for Iter<'a, K>
where
    K: Send + Sync + Eq + Hash,
{
    type Item = RefMulti<'a, K>;

    fn drive_unindexed<C>(self, consumer: C) -> C::Result
    where
        C: UnindexedConsumer<Self::Item>,
    {
        self.inner.map(RefMulti::new).drive_unindexed(consumer)
    }
}
