use crate::lock::RwLock;
use crate::mapref::multiple::{RefMulti, RefMutMulti};
use crate::{DashMap, HashMap};
use core::hash::{BuildHasher, Hash};
use crossbeam_utils::CachePadded;
use rayon::iter::plumbing::UnindexedConsumer;
use rayon::iter::{FromParallelIterator, IntoParallelIterator, ParallelExtend, ParallelIterator};
use std::sync::Arc;

impl<K, V, S> ParallelExtend<(K, V)> for DashMap<K, V, S>
where
    K: Send + Sync + Eq + Hash,
    V: Send + Sync,
    S: Send + Sync + Clone + BuildHasher,
{
    fn par_extend<I>(&mut self, par_iter: I)
    where
        I: IntoParallelIterator<Item = (K, V)>,
    {
        (&*self).par_extend(par_iter);
    }
}

// Since we don't actually need mutability, we can implement this on a
// reference, similar to `io::Write for &File`.
impl<K, V, S> ParallelExtend<(K, V)> for &'_ DashMap<K, V, S>
where
    K: Send + Sync + Eq + Hash,
    V: Send + Sync,
    S: Send + Sync + Clone + BuildHasher,
{
    fn par_extend<I>(&mut self, par_iter: I)
    where
        I: IntoParallelIterator<Item = (K, V)>,
    {
        let &mut map = self;
        par_iter.into_par_iter().for_each(move |(key, value)| {
            map.insert(key, value);
        });
    }
}

impl<K, V, S> FromParallelIterator<(K, V)> for DashMap<K, V, S>
where
    K: Send + Sync + Eq + Hash,
    V: Send + Sync,
    S: Send + Sync + Clone + Default + BuildHasher,
{
    fn from_par_iter<I>(par_iter: I) -> Self
    where
        I: IntoParallelIterator<Item = (K, V)>,
    {
        let map = Self::default();
        (&map).par_extend(par_iter);
        map
    }
}

// Implementation note: while the shards will iterate in parallel, we flatten
// sequentially within each shard (`flat_map_iter`), because the standard
// `HashMap` only implements `ParallelIterator` by collecting to a `Vec` first.
// There is real parallel support in the `hashbrown/rayon` feature, but we don't
// always use that map.

impl<K, V, S> IntoParallelIterator for DashMap<K, V, S>
where
    K: Send + Eq + Hash,
    V: Send,
    S: Send + Clone + BuildHasher,
{
    type Iter = OwningIter<K, V>;
    type Item = (K, V);

    fn into_par_iter(self) -> Self::Iter {
        OwningIter {
            shards: self.shards,
        }
    }
}

pub struct OwningIter<K, V> {
    pub(super) shards: Box<[CachePadded<RwLock<HashMap<K, V>>>]>,
}

impl<K, V> ParallelIterator for OwningIter<K, V>
where
    K: Send + Eq + Hash,
    V: Send,
{
    type Item = (K, V);

    fn drive_unindexed<C>(self, consumer: C) -> C::Result
    where
        C: UnindexedConsumer<Self::Item>,
    {
        Vec::from(self.shards)
            .into_par_iter()
            .flat_map_iter(|shard| {
                shard
                    .into_inner()
                    .into_inner()
                    .into_iter()
                    .map(|(k, v)| (k, v.into_inner()))
            })
            .drive_unindexed(consumer)
    }
}

// This impl also enables `IntoParallelRefIterator::par_iter`
impl<'a, K, V, S> IntoParallelIterator for &'a DashMap<K, V, S>
where
    K: Send + Sync + Eq + Hash,
    V: Send + Sync,
    S: Send + Sync + Clone + BuildHasher,
{
    type Iter = Iter<'a, K, V>;
    type Item = RefMulti<'a, K, V>;

    fn into_par_iter(self) -> Self::Iter {
        Iter {
            shards: &self.shards,
        }
    }
}

pub struct Iter<'a, K, V> {
    pub(super) shards: &'a [CachePadded<RwLock<HashMap<K, V>>>],
}

impl<'a, K, V> ParallelIterator for Iter<'a, K, V>
where
    K: Send + Sync + Eq + Hash,
    V: Send + Sync,
{
    type Item = RefMulti<'a, K, V>;

    fn drive_unindexed<C>(self, consumer: C) -> C::Result
    where
        C: UnindexedConsumer<Self::Item>,
    {
        self.shards
            .into_par_iter()
            .flat_map_iter(|shard| unsafe {
                let guard = Arc::new(shard.read());
                guard.iter().map(move |b| {
                    let guard = Arc::clone(&guard);
                    let (k, v) = b.as_ref();
                    RefMulti::new(guard, k, v.get())
                })
            })
            .drive_unindexed(consumer)
    }
}

// This impl also enables `IntoParallelRefMutIterator::par_iter_mut`
impl<'a, K, V> IntoParallelIterator for &'a mut DashMap<K, V>
where
    K: Send + Sync + Eq + Hash,
    V: Send + Sync,
{
    type Iter = IterMut<'a, K, V>;
    type Item = RefMutMulti<'a, K, V>;

    fn into_par_iter(self) -> Self::Iter {
        IterMut {
            shards: &self.shards,
        }
    }
}

impl<K, V, S> DashMap<K, V, S>
where
    K: Send + Sync + Eq + Hash,
    V: Send + Sync,
{
    // Unlike `IntoParallelRefMutIterator::par_iter_mut`, we only _need_ `&self`.
    pub fn par_iter_mut(&self) -> IterMut<'_, K, V> {
        IterMut {
            shards: &self.shards,
        }
    }
}

pub struct IterMut<'a, K, V> {
    shards: &'a [CachePadded<RwLock<HashMap<K, V>>>],
}

impl<'a, K, V> ParallelIterator for IterMut<'a, K, V>
where
    K: Send + Sync + Eq + Hash,
    V: Send + Sync,
{
    type Item = RefMutMulti<'a, K, V>;

    fn drive_unindexed<C>(self, consumer: C) -> C::Result
    where
        C: UnindexedConsumer<Self::Item>,
    {
        self.shards
            .into_par_iter()
            .flat_map_iter(|shard| unsafe {
                let guard = Arc::new(shard.write());
                guard.iter().map(move |b| {
                    let guard = Arc::clone(&guard);
                    let (k, v) = b.as_mut();
                    RefMutMulti::new(guard, k, v.get_mut())
                })
            })
            .drive_unindexed(consumer)
    }
}
