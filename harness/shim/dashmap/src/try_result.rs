/// Represents the result of a non-blocking read from a [DashMap](crate::DashMap).
#[derive(Debug)]
pub enum TryResult<R> {
    /// The value was present in the map, and the lock for the shard was successfully obtained.
    Present(R),
    /// The shard wasn't locked, and the value wasn't present in the map.
    Absent,
    /// The shard was locked.
    Locked,
}

impl<R> TryResult<R> {
    /// Returns `true` if the value was present in the map, and the lock for the shard was successfully obtained.
    pub fn is_present(&self) -> bool {
        matches!(self, TryResult::Present(_))
    }

    /// Returns `true` if the shard wasn't locked, and the value wasn't present in the map.
    pub fn is_absent(&self) -> bool {
        matches!(self, TryResult::Absent)
    }

    /// Returns `true` if the shard was locked.
    pub fn is_locked(&self) -> bool {
        matches!(self, TryResult::Locked)
    }

    /// If `self` is [Present](TryResult::Present), returns the reference to the value in the map.
    /// Panics if `self` is not [Present](TryResult::Present).
    pub fn unwrap(self) -> R {
        match self {
            TryResult::Present(r) => r,
            TryResult::Locked => panic!("Called unwrap() on TryResult::Locked"),
            TryResult::Absent => panic!("Called unwrap() on TryResult::Absent"),
        }
    }

    /// If `self` is [Present](TryResult::Present), returns the reference to the value in the map.
    /// If `self` is not [Present](TryResult::Present), returns `None`.
    pub fn try_unwrap(self) -> Option<R> {
        match self {
            TryResult::Present(r) => Some(r),
            _ => None,
        }
    }
}
