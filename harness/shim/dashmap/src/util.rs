//! This module is full of hackery and dark magic.
//! Either spend a day fixing it and quietly submit a PR or don't mention it to anybody.
use core::cell::UnsafeCell;
use core::{mem, ptr};

pub const fn ptr_size_bits() -> usize {
    mem::size_of::<usize>() * 8
}

pub fn map_in_place_2<T, U, F: FnOnce(U, T) -> T>((k, v): (U, &mut T), f: F) {
    unsafe {
        // # Safety
        //
        // If the closure panics, we must abort otherwise we could double drop `T`
        let promote_panic_to_abort = AbortOnPanic;

        ptr::write(v, f(k, ptr::read(v)));

        // If we made it here, the calling thread could have already have panicked, in which case
        // We know that the closure did not panic, so don't bother checking.
        std::mem::forget(promote_panic_to_abort);
    }
}

/// A simple wrapper around `T`
///
/// This is to prevent UB when using `HashMap::get_key_value`, because
/// `HashMap` doesn't expose an api to get the key and value, where
/// the value is a `&mut T`.
///
/// See [#10](https://github.com/xacrimon/dashmap/issues/10) for details
///
/// This type is meant to be an implementation detail, but must be exposed due to the `Dashmap::shards`
#[repr(transparent)]
pub struct SharedValue<T> {
    value: UnsafeCell<T>,
}

impl<T: Clone> Clone for SharedValue<T> {
    fn clone(&self) -> Self {
        let inner = self.get().clone();

        Self {
            value: UnsafeCell::new(inner),
        }
    }
}

unsafe impl<T: Send> Send for SharedValue<T> {}

unsafe impl<T: Sync> Sync for SharedValue<T> {}

impl<T> SharedValue<T> {
    /// Create a new `SharedValue<T>`
    pub const fn new(value: T) -> Self {
        Self {
            value: UnsafeCell::new(value),
        }
    }

    /// Get a shared reference to `T`
    pub fn get(&self) -> &T {
        unsafe { &*self.value.get() }
    }

    /// Get an unique reference to `T`
    pub fn get_mut(&mut self) -> &mut T {
        unsafe { &mut *self.value.get() }
    }

    /// Unwraps the value
    pub fn into_inner(self) -> T {
        self.value.into_inner()
    }

    /// Get a mutable raw pointer to the underlying value
    pub(crate) fn as_ptr(&self) -> *mut T {
        self.value.get()
    }
}

struct AbortOnPanic;

impl Drop for AbortOnPanic {
    fn drop(&mut self) {
        if std::thread::panicking() {
            std::process::abort()
        }
    }
}
