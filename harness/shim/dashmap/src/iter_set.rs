use crate::setref::multiple::RefMulti;
use crate::t::Map;
use core::hash::{BuildHasher, Hash};

pub struct OwningIter<K, S> {
    inner: crate::iter::OwningIter<K, (), S>,
}

impl<K: Eq + Hash, S: BuildHasher + Clone> OwningIter<K, S> {
    pub(crate) fn new(inner: crate::iter::OwningIter<K, (), S>) -> Self {
        Self { inner }
    }
}

impl<K: Eq + Hash, S: BuildHasher + Clone> Iterator for OwningIter<K, S> {
    type Item = K;

    fn next(&mut self) -> Option<Self::Item> {
        self.inner.next().map(|(k, _)| k)
    }
}

unsafe impl<K, S> Send for OwningIter<K, S>
where
    K: Eq + Hash + Send,
    S: BuildHasher + Clone + Send,
{
}

unsafe impl<K, S> Sync for OwningIter<K, S>
where
    K: Eq + Hash + Sync,
    S: BuildHasher + Clone + Sync,
{
}

pub struct Iter<'a, K, S, M> {
    inner: crate::iter::Iter<'a, K, (), S, M>,
}

unsafe impl<'a, 'i, K, S, M> Send for Iter<'i, K, S, M>
where
    K: 'a + Eq + Hash + Send,
    S: 'a + BuildHasher + Clone,
    M: Map<'a, K, (), S>,
{
}

unsafe impl<'a, 'i, K, S, M> Sync for Iter<'i, K, S, M>
where
    K: 'a + Eq + Hash + Sync,
    S: 'a + BuildHasher + Clone,
    M: Map<'a, K, (), S>,
{
}

impl<'a, K: Eq + Hash, S: 'a + BuildHasher + Clone, M: Map<'a, K, (), S>> Iter<'a, K, S, M> {
    pub(crate) fn new(inner: crate::iter::Iter<'a, K, (), S, M>) -> Self {
        Self { inner }
    }
}

impl<'a, K: Eq + Hash, S: 'a + BuildHasher + Clone, M: Map<'a, K, (), S>> Iterator
    for Iter<'a, K, S, M>
{
    type Item = RefMulti<'a, K>;

    fn next(&mut self) -> Option<Self::Item> {
        self.inner.next().map(RefMulti::new)
    }
}
