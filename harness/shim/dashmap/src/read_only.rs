use crate::lock::RwLock;
use crate::t::Map;
use crate::{DashMap, HashMap};
use cfg_if::cfg_if;
use core::borrow::Borrow;
use core::fmt;
use core::hash::{BuildHasher, Hash};
use crossbeam_utils::CachePadded;
use std::collections::hash_map::RandomState;

/// A read-only view into a `DashMap`. Allows to obtain raw references to the stored values.
pub struct ReadOnlyView<K, V, S = RandomState> {
    pub(crate) map: DashMap<K, V, S>,
}

impl<K: Eq + Hash + Clone, V: Clone, S: Clone> Clone for ReadOnlyView<K, V, S> {
    fn clone(&self) -> Self {
        Self {
            map: self.map.clone(),
        }
    }
}

impl<K: Eq + Hash + fmt::Debug, V: fmt::Debug, S: BuildHasher + Clone> fmt::Debug
    for ReadOnlyView<K, V, S>
{
    fn fmt(&self, f: &mut fmt::Formatter<'_>) -> fmt::Result {
        self.map.fmt(f)
    }
}

impl<K, V, S> ReadOnlyView<K, V, S> {
    pub(crate) fn new(map: DashMap<K, V, S>) -> Self {
        Self { map }
    }

    /// Consumes this `ReadOnlyView`, returning the underlying `DashMap`.
    pub fn into_inner(self) -> DashMap<K, V, S> {
        self.map
    }
}

impl<'a, K: 'a + Eq + Hash, V: 'a, S: BuildHasher + Clone> ReadOnlyView<K, V, S> {
    /// Returns the number of elements in the map.
    pub fn len(&self) -> usize {
        self.map.len()
    }

    /// Returns `true` if the map contains no elements.
    pub fn is_empty(&self) -> bool {
        self.map.is_empty()
    }

    /// Returns the number of elements the map can hold without reallocating.
    pub fn capacity(&self) -> usize {
        self.map.capacity()
    }

    /// Returns `true` if the map contains a value for the specified key.
    pub fn contains_key<Q>(&'a self, key: &Q) -> bool
    where
        K: Borrow<Q>,
        Q: Hash + Eq + ?Sized,
    {
        self.get(key).is_some()
    }

    /// Returns a reference to the value corresponding to the key.
    pub fn get<Q>(&'a self, key: &Q) -> Option<&'a V>
    where
        K: Borrow<Q>,
        Q: Hash + Eq + ?Sized,
    {
        self.get_key_value(key).map(|(_k, v)| v)
    }

    /// Returns the key-value pair corresponding to the supplied key.
    pub fn get_key_value<Q>(&'a self, key: &Q) -> Option<(&'a K, &'a V)>
    where
        K: Borrow<Q>,
        Q: Hash + Eq + ?Sized,
    {
        let hash = self.map.hash_u64(&key);

        let idx = self.map.determine_shard(hash as usize);

        let shard = unsafe { self.map._get_read_shard(idx) };

        shard.find(hash, |(k, _v)| key == k.borrow()).map(|b| {
            let (k, v) = unsafe { b.as_ref() };
            (k, v.get())
        })
    }

    /// An iterator visiting all key-value pairs in arbitrary order. The iterator element type is `(&'a K, &'a V)`.
    pub fn iter(&'a self) -> impl Iterator<Item = (&'a K, &'a V)> + 'a {
        unsafe {
            (0..self.map._shard_count())
                .map(move |shard_i| self.map._get_read_shard(shard_i))
                .flat_map(|shard| shard.iter())
                .map(|b| {
                    let (k, v) = b.as_ref();
                    (k, v.get())
                })
        }
    }

    /// An iterator visiting all keys in arbitrary order. The iterator element type is `&'a K`.
    pub fn keys(&'a self) -> impl Iterator<Item = &'a K> + 'a {
        self.iter().map(|(k, _v)| k)
    }

    /// An iterator visiting all values in arbitrary order. The iterator element type is `&'a V`.
    pub fn values(&'a self) -> impl Iterator<Item = &'a V> + 'a {
        self.iter().map(|(_k, v)| v)
    }

    cfg_if! {
        if #[cfg(feature = "raw-api")] {
            /// Allows you to peek at the inner shards that store your data.
            /// You should probably not use this unless you know what you are doing.
            ///
            /// Requires the `raw-api` feature to be enabled.
            ///
            /// # Examples
            ///
            /// ```
            /// use dashmap::DashMap;
            ///
            /// let map = DashMap::<(), ()>::new().into_read_only();
            /// println!("Amount of shards: {}", map.shards().len());
            /// ```
            pub fn shards(&self) -> &[CachePadded<RwLock<HashMap<K, V>>>] {
                &self.map.shards
            }
        } else {
            #[allow(dead_code)]
            pub(crate) fn shards(&self) -> &[CachePadded<RwLock<HashMap<K, V>>>] {
                &self.map.shards
            }
        }
    }
}

#[cfg(test)]

mod tests {

    use crate::DashMap;

    fn construct_sample_map() -> DashMap<i32, String> {
        let map = DashMap::new();

        map.insert(1, "one".to_string());

        map.insert(10, "ten".to_string());

        map.insert(27, "twenty seven".to_string());

        map.insert(45, "forty five".to_string());

        map
    }

    #[test]

    fn test_properties() {
        let map = construct_sample_map();

        let view = map.clone().into_read_only();

        assert_eq!(view.is_empty(), map.is_empty());

        assert_eq!(view.len(), map.len());

        assert_eq!(view.capacity(), map.capacity());

        let new_map = view.into_inner();

        assert_eq!(new_map.is_empty(), map.is_empty());

        assert_eq!(new_map.len(), map.len());

        assert_eq!(new_map.capacity(), map.capacity());
    }

    #[test]

    fn test_get() {
        let map = construct_sample_map();

        let view = map.clone().into_read_only();

        for key in map.iter().map(|entry| *entry.key()) {
            assert!(view.contains_key(&key));

            let map_entry = map.get(&key).unwrap();

            assert_eq!(view.get(&key).unwrap(), map_entry.value());

            let key_value: (&i32, &String) = view.get_key_value(&key).unwrap();

            assert_eq!(key_value.0, map_entry.key());

            assert_eq!(key_value.1, map_entry.value());
        }
    }

    #[test]

    fn test_iters() {
        let map = construct_sample_map();

        let view = map.clone().into_read_only();

        let mut visited_items = Vec::new();

        for (key, value) in view.iter() {
            map.contains_key(key);

            let map_entry = map.get(key).unwrap();

            assert_eq!(key, map_entry.key());

            assert_eq!(value, map_entry.value());

            visited_items.push((key, value));
        }

        let mut visited_keys = Vec::new();

        for key in view.keys() {
            map.contains_key(key);

            let map_entry = map.get(key).unwrap();

            assert_eq!(key, map_entry.key());

            assert_eq!(view.get(key).unwrap(), map_entry.value());

            visited_keys.push(key);
        }

        let mut visited_values = Vec::new();

        for value in view.values() {
            visited_values.push(value);
        }

        for entry in map.iter() {
            let key = entry.key();

            let value = entry.value();

            assert!(visited_keys.contains(&key));

            assert!(visited_values.contains(&value));

            assert!(visited_items.contains(&(key, value)));
        }
    }
}
