//! Verification shim for `parking_lot` (injected with `[patch.crates-io]` in the harness workspace
//! only; the repository under test is not modified).
//!
//! `Mutex` / `RwLock` are `lock_api` wrappers over raw locks that are (a) plain yielding spin locks
//! for threads the scheduler does not manage, and (b) scheduling points for *managed* threads: a
//! managed thread that wants a lock parks, and the controller decides which parked thread is
//! granted its lock next. Exactly one managed thread runs at any time, so an execution is fully
//! determined by the sequence of grant choices, deadlocks are detected exactly ("some thread
//! unfinished, nothing grantable") and schedules are replayable.

pub use lock_api;

use std::sync::atomic::{AtomicBool, AtomicUsize, Ordering};

pub mod sched;

// -------------------------------------------------------------------------------------------------
// raw mutex
// -------------------------------------------------------------------------------------------------

pub struct RawMutex {
    locked: AtomicBool,
}

impl RawMutex {
    #[inline]
    pub(crate) fn is_free(&self) -> bool {
        !self.locked.load(Ordering::SeqCst)
    }
}

unsafe impl lock_api::RawMutex for RawMutex {
    #[allow(clippy::declare_interior_mutable_const)]
    const INIT: RawMutex = RawMutex {
        locked: AtomicBool::new(false),
    };
    type GuardMarker = lock_api::GuardSend;

    fn lock(&self) {
        if sched::is_managed() {
            sched::acquire(sched::Want::Mutex(self as *const RawMutex as usize));
            let ok = self.try_lock();
            assert!(ok, "scheduler granted a held mutex");
            return;
        }
        while !self.try_lock() {
            std::thread::yield_now();
        }
    }

    #[inline]
    fn try_lock(&self) -> bool {
        self.locked
            .compare_exchange(false, true, Ordering::SeqCst, Ordering::SeqCst)
            .is_ok()
    }

    #[inline]
    unsafe fn unlock(&self) {
        self.locked.store(false, Ordering::SeqCst);
        sched::note_release(self as *const RawMutex as usize);
    }
}

// -------------------------------------------------------------------------------------------------
// raw rwlock: state = number of readers, or WRITER
// -------------------------------------------------------------------------------------------------

const WRITER: usize = usize::MAX;

pub struct RawRwLock {
    state: AtomicUsize,
}

impl RawRwLock {
    #[inline]
    pub(crate) fn can_read(&self) -> bool {
        self.state.load(Ordering::SeqCst) != WRITER
    }
    #[inline]
    pub(crate) fn can_write(&self) -> bool {
        self.state.load(Ordering::SeqCst) == 0
    }
    #[inline]
    pub(crate) fn is_read_held(&self) -> bool {
        let s = self.state.load(Ordering::SeqCst);
        s != 0 && s != WRITER
    }
    /// Write lock -> one read lock (used by the dashmap shim's RawRwLockDowngrade).
    ///
    /// # Safety
    /// The caller must hold the exclusive lock.
    pub unsafe fn downgrade_to_shared(&self) {
        self.state.store(1, Ordering::SeqCst);
    }
}

unsafe impl lock_api::RawRwLock for RawRwLock {
    #[allow(clippy::declare_interior_mutable_const)]
    const INIT: RawRwLock = RawRwLock {
        state: AtomicUsize::new(0),
    };
    type GuardMarker = lock_api::GuardSend;

    fn lock_shared(&self) {
        if sched::is_managed() {
            sched::acquire(sched::Want::Read(self as *const RawRwLock as usize));
            let ok = self.try_lock_shared();
            assert!(ok, "scheduler granted a write-held rwlock for reading");
            return;
        }
        while !self.try_lock_shared() {
            std::thread::yield_now();
        }
    }

    fn try_lock_shared(&self) -> bool {
        let mut s = self.state.load(Ordering::SeqCst);
        loop {
            if s == WRITER {
                return false;
            }
            match self
                .state
                .compare_exchange(s, s + 1, Ordering::SeqCst, Ordering::SeqCst)
            {
                Ok(_) => return true,
                Err(x) => s = x,
            }
        }
    }

    unsafe fn unlock_shared(&self) {
        self.state.fetch_sub(1, Ordering::SeqCst);
        sched::note_release(self as *const RawRwLock as usize);
    }

    fn lock_exclusive(&self) {
        if sched::is_managed() {
            sched::acquire(sched::Want::Write(self as *const RawRwLock as usize));
            let ok = self.try_lock_exclusive();
            assert!(ok, "scheduler granted a held rwlock for writing");
            return;
        }
        while !self.try_lock_exclusive() {
            std::thread::yield_now();
        }
    }

    fn try_lock_exclusive(&self) -> bool {
        self.state
            .compare_exchange(0, WRITER, Ordering::SeqCst, Ordering::SeqCst)
            .is_ok()
    }

    unsafe fn unlock_exclusive(&self) {
        self.state.store(0, Ordering::SeqCst);
        sched::note_release(self as *const RawRwLock as usize);
    }
}

// -------------------------------------------------------------------------------------------------
// public types (the subset of parking_lot's API that cachelito and its macro output use)
// -------------------------------------------------------------------------------------------------

pub type Mutex<T> = lock_api::Mutex<RawMutex, T>;
pub type MutexGuard<'a, T> = lock_api::MutexGuard<'a, RawMutex, T>;
pub type MappedMutexGuard<'a, T> = lock_api::MappedMutexGuard<'a, RawMutex, T>;
pub type RwLock<T> = lock_api::RwLock<RawRwLock, T>;
pub type RwLockReadGuard<'a, T> = lock_api::RwLockReadGuard<'a, RawRwLock, T>;
pub type RwLockWriteGuard<'a, T> = lock_api::RwLockWriteGuard<'a, RawRwLock, T>;

pub const fn const_mutex<T>(val: T) -> Mutex<T> {
    Mutex::const_new(<RawMutex as lock_api::RawMutex>::INIT, val)
}

pub const fn const_rwlock<T>(val: T) -> RwLock<T> {
    RwLock::const_new(<RawRwLock as lock_api::RawRwLock>::INIT, val)
}
