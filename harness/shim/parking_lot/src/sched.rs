//! Cooperative scheduler: managed threads run one at a time and park at every lock acquisition
//! (and at explicit yield points); a controller chooses which parked thread proceeds.

use crate::{RawMutex, RawRwLock};
use std::cell::Cell;
use std::sync::{Condvar, Mutex};
use std::time::{Duration, Instant};

#[derive(Clone, Copy, Debug, PartialEq, Eq)]
pub enum Want {
    Mutex(usize),
    Read(usize),
    Write(usize),
    /// Explicit yield point of the harness (always grantable); the payload is a free tag.
    Yield(u32),
}

impl Want {
    pub fn addr(&self) -> usize {
        match *self {
            Want::Mutex(a) | Want::Read(a) | Want::Write(a) => a,
            Want::Yield(_) => 0,
        }
    }
    pub fn mode(&self) -> &'static str {
        match self {
            Want::Mutex(_) => "x",
            Want::Read(_) => "r",
            Want::Write(_) => "w",
            Want::Yield(_) => "y",
        }
    }
    fn grantable(&self) -> bool {
        unsafe {
            match *self {
                Want::Mutex(a) => (*(a as *const RawMutex)).is_free(),
                Want::Read(a) => (*(a as *const RawRwLock)).can_read(),
                Want::Write(a) => (*(a as *const RawRwLock)).can_write(),
                Want::Yield(_) => true,
            }
        }
    }
}

#[derive(Clone, Debug, PartialEq)]
pub enum Status {
    Running,
    Waiting(Want),
    Done,
    Panicked(String),
}

struct State {
    status: Vec<Status>,
    turn: Option<usize>,
    held: Vec<Vec<(usize, &'static str)>>,
}

static STATE: Mutex<Option<State>> = Mutex::new(None);
static STEPS: std::sync::atomic::AtomicUsize = std::sync::atomic::AtomicUsize::new(0);

static TAGS: Mutex<Vec<(usize, &'static str)>> = Mutex::new(Vec::new());

/// Give a lock address a class name (e.g. "shard"); only recorded for managed threads.
pub fn tag_lock(addr: usize, tag: &'static str) {
    if is_managed() {
        let mut t = TAGS.lock().unwrap();
        if !t.iter().any(|x| x.0 == addr) {
            t.push((addr, tag));
        }
    }
}

pub fn tag_of(addr: usize) -> Option<&'static str> {
    TAGS.lock().unwrap().iter().find(|x| x.0 == addr).map(|x| x.1)
}

/// Number of grants made so far in the current run (a logical clock for managed threads).
pub fn steps() -> usize {
    STEPS.load(std::sync::atomic::Ordering::SeqCst)
}
static CV: Condvar = Condvar::new();

thread_local! {
    static ME: Cell<Option<usize>> = const { Cell::new(None) };
}

#[inline]
pub fn is_managed() -> bool {
    ME.with(|m| m.get().is_some())
}

pub fn current() -> Option<usize> {
    ME.with(|m| m.get())
}

/// Park the calling managed thread until the controller grants `w`.
pub fn acquire(w: Want) {
    let me = match current() {
        Some(m) => m,
        None => return,
    };
    let mut g = STATE.lock().unwrap();
    {
        let st = match g.as_mut() {
            Some(s) => s,
            None => loop {
                // the run was abandoned (deadlock/hang): stay parked forever
                g = CV.wait(g).unwrap();
            },
        };
        st.status[me] = Status::Waiting(w);
        st.turn = None;
    }
    CV.notify_all();
    loop {
        match g.as_mut() {
            Some(st) if st.turn == Some(me) => {
                st.status[me] = Status::Running;
                if !matches!(w, Want::Yield(_)) {
                    st.held[me].push((w.addr(), w.mode()));
                }
                return;
            }
            _ => {}
        }
        g = CV.wait(g).unwrap();
    }
}

/// Explicit scheduling point for managed threads (no-op otherwise).
pub fn yield_point(tag: u32) {
    if is_managed() {
        acquire(Want::Yield(tag));
    }
}

pub(crate) fn note_release(addr: usize) {
    if let Some(me) = current() {
        if let Ok(mut g) = STATE.lock() {
            if let Some(st) = g.as_mut() {
                if let Some(pos) = st.held[me].iter().rposition(|h| h.0 == addr) {
                    st.held[me].remove(pos);
                }
            }
        }
    }
}

/// What the controller shows to the chooser / observer between two steps (all threads parked).
pub struct View {
    pub step: usize,
    pub status: Vec<Status>,
    /// thread ids whose pending acquisition can be granted now
    pub enabled: Vec<usize>,
    /// per thread: locks currently held (address, mode)
    pub held: Vec<Vec<(usize, &'static str)>>,
    /// the grant that led to this view (None for the initial view)
    pub last: Option<(usize, Want)>,
}

#[derive(Debug, Clone, PartialEq)]
pub enum Outcome {
    Finished,
    Deadlock,
    /// a managed thread did not reach its next scheduling point in time (blocked outside the shim)
    Hang,
}

pub struct RunResult {
    /// every grant made, in order: (thread, what was granted)
    pub grants: Vec<(usize, Want)>,
    /// parallel to `grants`: the locks the thread held when the grant was made
    pub grants_held: Vec<Vec<(usize, &'static str)>>,
    pub outcome: Outcome,
    pub choices: Vec<usize>,
    pub status: Vec<Status>,
    pub steps: usize,
}

/// Run `bodies` as managed threads. `chooser` is called whenever all threads are parked and at
/// least one can proceed; it returns an index into `view.enabled`.
pub fn run(
    bodies: Vec<Box<dyn FnOnce() + Send + 'static>>,
    chooser: &mut dyn FnMut(&View) -> usize,
    hang_after: Duration,
) -> RunResult {
    let n = bodies.len();
    STEPS.store(0, std::sync::atomic::Ordering::SeqCst);
    {
        let mut g = STATE.lock().unwrap();
        assert!(g.is_none(), "scheduler already active");
        *g = Some(State {
            status: vec![Status::Running; n],
            turn: None,
            held: vec![Vec::new(); n],
        });
    }
    let mut handles = Vec::new();
    for (i, body) in bodies.into_iter().enumerate() {
        handles.push(
            std::thread::Builder::new()
                .name(format!("managed-{}", i))
                .spawn(move || {
                    ME.with(|m| m.set(Some(i)));
                    // initial park: the controller decides who starts
                    acquire(Want::Yield(0));
                    let r = std::panic::catch_unwind(std::panic::AssertUnwindSafe(body));
                    let mut g = STATE.lock().unwrap();
                    if let Some(st) = g.as_mut() {
                        st.status[i] = match r {
                            Ok(()) => Status::Done,
                            Err(e) => Status::Panicked(
                                e.downcast_ref::<String>()
                                    .cloned()
                                    .or_else(|| e.downcast_ref::<&str>().map(|s| s.to_string()))
                                    .unwrap_or_else(|| "panic".to_string()),
                            ),
                        };
                        st.turn = None;
                    }
                    drop(g);
                    CV.notify_all();
                })
                .unwrap(),
        );
    }

    let mut choices = Vec::new();
    let mut all_grants: Vec<(usize, Want)> = Vec::new();
    let mut all_held: Vec<Vec<(usize, &'static str)>> = Vec::new();
    let mut steps = 0usize;
    let mut last: Option<(usize, Want)> = None;
    let outcome;
    let final_status;
    loop {
        // wait until every thread is parked or finished
        let mut g = STATE.lock().unwrap();
        let t0 = Instant::now();
        let mut hung = false;
        loop {
            let st = g.as_ref().unwrap();
            let all_parked = st.turn.is_none()
                && st.status.iter().all(|s| !matches!(s, Status::Running));
            if all_parked {
                break;
            }
            if t0.elapsed() > hang_after {
                hung = true;
                break;
            }
            let (ng, _) = CV.wait_timeout(g, Duration::from_millis(50)).unwrap();
            g = ng;
        }
        if hung {
            outcome = Outcome::Hang;
            final_status = g.as_ref().unwrap().status.clone();
            *g = None;
            break;
        }
        let st = g.as_ref().unwrap();
        let status = st.status.clone();
        let held = st.held.clone();
        drop(g);

        if status
            .iter()
            .all(|s| matches!(s, Status::Done | Status::Panicked(_)))
        {
            outcome = Outcome::Finished;
            final_status = status;
            *STATE.lock().unwrap() = None;
            break;
        }
        let enabled: Vec<usize> = status
            .iter()
            .enumerate()
            .filter_map(|(i, s)| match s {
                Status::Waiting(w) if w.grantable() => Some(i),
                _ => None,
            })
            .collect();
        // parking_lot's RwLock prefers writers: once a writer waits for a read-held lock, a new
        // (non-recursive) `read()` queues behind it. Grants stay permissive (a reader may still be
        // scheduled first: it arrived before the writer), but a state in which every thread is blocked
        // *when the pending writers are taken to have arrived first* is a feasible real deadlock
        // (e.g. a recursive read while a writer waits). DashMap's shard locks let readers barge and
        // are excluded.
        let wp_blocked = |w: &Want| -> bool {
            if !w.grantable() {
                return true;
            }
            if let Want::Read(a) = *w {
                if tag_of(a) == Some("shard") {
                    return false;
                }
                let read_held = unsafe { (*(a as *const RawRwLock)).is_read_held() };
                return read_held
                    && status
                        .iter()
                        .any(|s| matches!(s, Status::Waiting(Want::Write(b)) if *b == a));
            }
            false
        };
        let wp_deadlock = !enabled.is_empty()
            && status.iter().all(|s| match s {
                Status::Waiting(w) => wp_blocked(w),
                Status::Done | Status::Panicked(_) => true,
                Status::Running => false,
            });
        let enabled: Vec<usize> = if wp_deadlock { Vec::new() } else { enabled };
        let held_now = held.clone();
        let view = View {
            step: steps,
            status: status.clone(),
            enabled: enabled.clone(),
            held,
            last,
        };
        if enabled.is_empty() {
            // let the chooser observe the deadlocked view too
            let _ = chooser(&view);
            outcome = Outcome::Deadlock;
            final_status = status;
            *STATE.lock().unwrap() = None;
            break;
        }
        let c = chooser(&view) % enabled.len();
        let t = enabled[c];
        choices.push(c);
        steps += 1;
        STEPS.store(steps, std::sync::atomic::Ordering::SeqCst);
        last = match &status[t] {
            Status::Waiting(w) => Some((t, *w)),
            _ => None,
        };
        if let Some(g) = last {
            all_grants.push(g);
            all_held.push(held_now[t].clone());
        }
        let mut g = STATE.lock().unwrap();
        let st = g.as_mut().unwrap();
        st.status[t] = Status::Running;
        st.turn = Some(t);
        // restore Waiting so that `acquire` sees its own request; it flips to Running itself
        if let Some((_, w)) = last {
            st.status[t] = Status::Waiting(w);
        }
        drop(g);
        CV.notify_all();
    }
    if outcome == Outcome::Finished {
        for h in handles {
            let _ = h.join();
        }
    }
    CV.notify_all();
    RunResult {
        grants: all_grants,
        grants_held: all_held,
        outcome,
        choices,
        status: final_status,
        steps,
    }
}
