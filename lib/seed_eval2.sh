#!/bin/bash
# usage: seed_eval2.sh <seed-name> <worktree> <property> [more properties...]
# Like seed_eval.sh, but the checks run in a private copy of /verif whose harness depends on the seed's
# own worktree (which has the change applied) instead of /repo: /repo and /verif stay untouched, several
# seeds can be evaluated at once. The copy is removed afterwards.
set -u
NAME=$1; WT=$2; shift 2; PROPS="$@"
OUT=/verif/seeded/$NAME
mkdir -p $OUT
cp $WT/out/patch.diff $OUT/patch.diff
cp $WT/out/notes.md $OUT/notes.md 2>/dev/null
cp $WT/out/demo_cmd.txt $OUT/demo_cmd.txt 2>/dev/null
for f in $WT/out/*.rs $WT/out/*.sh; do [ -f "$f" ] && cp $f $OUT/; done
cd $WT
DEMO_CMD=$(grep -o 'cargo test.*' out/demo_cmd.txt | head -1)
[ -z "$DEMO_CMD" ] && DEMO_CMD=$(grep -v '^#' out/demo_cmd.txt | grep -v '^$' | tail -1)
DEMO_FILES=$(git status --porcelain -uall | grep '^??' | awk '{print $2}' | grep -v '^out/' | grep '\.rs$')
LOG=$OUT/confirm.log; : > $LOG
echo "demo files: $DEMO_FILES" >> $LOG
echo "demo cmd: $DEMO_CMD" >> $LOG
( eval "timeout 900 $DEMO_CMD" ) >> $LOG 2>&1; RC_WITH=$?
mkdir -p /tmp/demo_stash_$NAME; for f in $DEMO_FILES; do mkdir -p /tmp/demo_stash_$NAME/$(dirname $f); mv $f /tmp/demo_stash_$NAME/$f; done
timeout 2400 cargo test --workspace --no-fail-fast --offline > $OUT/suite.log 2>&1; RC_SUITE=$?   # 124 = an existing test hung
PASSED=$(grep -E "^test result" $OUT/suite.log | awk '{p+=$4; f+=$6} END {print p" passed "f" failed"}')
grep -E "^test .* FAILED|^---- .* ----" $OUT/suite.log | head -5 >> $LOG
for f in $DEMO_FILES; do mv /tmp/demo_stash_$NAME/$f $f; done; rm -rf /tmp/demo_stash_$NAME
git apply -R out/patch.diff >> $LOG 2>&1
( eval "timeout 900 $DEMO_CMD" ) >> $LOG 2>&1; RC_WITHOUT=$?
git apply out/patch.diff >> $LOG 2>&1
echo "demo_with_change_rc=$RC_WITH suite_rc=$RC_SUITE ($PASSED) demo_without_change_rc=$RC_WITHOUT" | tee -a $LOG
tail -c 600 $OUT/suite.log > $OUT/suite_tail.log; rm -f $OUT/suite.log
# private copy of the machinery, bound to the worktree
VC=/tmp/ve_$NAME
rm -rf $VC; mkdir -p $VC
rsync -a --exclude work --exclude .git --exclude seeded /verif/ $VC/
mkdir -p $VC/work
sed -i "s#\"/repo#\"$WT#g" $VC/harness/Cargo.toml $VC/lib/attrs_check.py
RES=""
for P in $PROPS; do
  ( cd $VC && timeout 2400 ./check $P --tier quick > $OUT/check_$P.log 2>&1 ); RC=$?
  RES="$RES $P:rc=$RC"
  grep -E "^VIOLATION|^KNOWN|^TOOL-ERROR" $OUT/check_$P.log | head -3
done
rm -rf $VC
echo "checks:$RES" | tee -a $LOG
python3 - <<PY
import json
json.dump({"name":"$NAME","properties":"$PROPS".split(),"confirm":{"demo_with_change_rc":$RC_WITH,"suite_rc":$RC_SUITE,"suite":"$PASSED","demo_without_change_rc":$RC_WITHOUT},
 "checks":"$RES".split()}, open("$OUT/result.json","w"), indent=1)
PY
