"""C19 corpus: a covering array (all pairs + every single value) over the attribute dimensions of
#[cache] / #[cache_async] and the signature shapes, plus a corpus of invalid attribute lists.
Rows are plain dicts; `expectation(row)` is the generator's own reading, cross-checked against
Attrs.tla (Expected) by the C19 check."""
import itertools, json, random

DIMS = {
    "macro": ["sync", "async"],
    "limit": [("absent", 0), ("int", 1), ("int", 3)],
    "policy": [("absent", "")] + [("str", p) for p in ("fifo", "lru", "lfu", "arc", "random", "tlru")],
    "ttl": [("absent", 0), ("int", 1), ("int", 2)],
    "maxmem": [("absent", 0, None), ("int", 200, "200"), ("strnum", 200, '"200"'), ("kb", 1, '"1KB"'),
               ("lowerkb", 1, '"1kb"'), ("kb", 2, '"2KB"'), ("mb", 1, '"1MB"'), ("gb", 1, '"1GB"'),
               ("gb", 4, '"4GB"'), ("mb", 4096, '"4096MB"')],
    "scope": [("absent", ""), ("str", "global"), ("str", "thread")],
    "weight": [("absent", "none", None), ("float", "0.3", "0.3"), ("float", "1.5", "1.5"), ("int", "3", "3")],
    "name": ["absent", "custom"],
    "meta": ["none", "tags", "events_deps"],
    "preds": ["none", "cif", "inv", "both"],
    "ret": ["i64", "res", "str", "res_str"],
    "sig": ["k", "zero", "two", "four", "mref", "mmut", "mval"],
}


def ok_row(r):
    if r["macro"] == "async" and r["scope"][0] != "absent":
        return False
    # unit fixtures must be able to hold strings
    if r["maxmem"][0] in ("kb", "lowerkb", "mb") and r["ret"] not in ("str", "res_str"):
        return False
    return True


def covering(seed=7):
    rng = random.Random(seed)
    names = list(DIMS)
    need = set()
    for a, b in itertools.combinations(names, 2):
        for va in range(len(DIMS[a])):
            for vb in range(len(DIMS[b])):
                need.add((a, va, b, vb))
    rows = []
    tries = 0
    while need and tries < 200000:
        tries += 1
        best, bestc = None, -1
        for _ in range(30):
            cand = {d: rng.randrange(len(DIMS[d])) for d in names}
            r = {d: DIMS[d][cand[d]] for d in names}
            if not ok_row(r):
                continue
            c = sum(1 for (a, b) in itertools.combinations(names, 2) if (a, cand[a], b, cand[b]) in need)
            if c > bestc:
                best, bestc = cand, c
        if best is None or bestc == 0:
            # remaining pairs may be infeasible (async x scope, units x non-string)
            infeasible = [p for p in need if not feasible(p)]
            for p in infeasible:
                need.discard(p)
            if not infeasible and bestc == 0:
                # try to hit one specific pair directly
                p = next(iter(need))
                cand = {d: rng.randrange(len(DIMS[d])) for d in names}
                cand[p[0]], cand[p[2]] = p[1], p[3]
                r = {d: DIMS[d][cand[d]] for d in names}
                if not ok_row(r):
                    continue
                best = cand
            elif best is None:
                continue
        for (a, b) in itertools.combinations(names, 2):
            need.discard((a, best[a], b, best[b]))
        rows.append({d: DIMS[d][best[d]] for d in names})
    return rows


def feasible(p):
    a, va, b, vb = p
    r = {a: DIMS[a][va], b: DIMS[b][vb]}
    if r.get("macro") == "async" and "scope" in r and r["scope"][0] != "absent":
        return False
    if "maxmem" in r and r["maxmem"][0] in ("kb", "lowerkb", "mb") and "ret" in r and r["ret"] not in ("str", "res_str"):
        return False
    return True


HUGE = 2 ** 31 - 1   # TLC has 32-bit integers: limits of 2 GiB and more are represented by this cap


def mem_bytes(m):
    cls, n = m[0], m[1]
    v = {"absent": 0, "int": n, "strnum": n, "kb": n * 1024, "lowerkb": n * 1024, "mb": n * 1024 * 1024,
         "gb": n * 1024 ** 3}[cls]
    return min(v, HUGE)


def flavour(r):
    if r["macro"] == "async":
        return "async"
    return "thread" if r["scope"] == ("str", "thread") else "sync"


def expectation(r):
    return {"verdict": "accept",
            "cfg": {"flavour": flavour(r), "policy": r["policy"][1] or "fifo", "limit": r["limit"][1],
                    "ttl": r["ttl"][1], "maxmem": mem_bytes(r["maxmem"]), "w": r["weight"][1]}}


def tla_row(r, rid, expect):
    return {"id": rid, "macro": r["macro"],
            "limit": {"cls": r["limit"][0], "n": r["limit"][1]},
            "policy": {"cls": r["policy"][0], "p": r["policy"][1]},
            "ttl": {"cls": r["ttl"][0], "n": r["ttl"][1]},
            "maxmem": {"cls": r["maxmem"][0], "n": r["maxmem"][1]},
            "scope": {"cls": r["scope"][0], "s": r["scope"][1]},
            "weight": {"cls": r["weight"][0], "w": r["weight"][1]},
            "unknown": r.get("unknown", "absent"), "expect": expect}


# ------------------------------------------------------------------ invalid attribute lists
INVALID = [
    # (label, macro, attribute text, tla overrides)
    ("limit_str", "both", 'limit = "3"', {"limit": {"cls": "str", "n": 0}}),
    ("limit_neg", "both", "limit = -1", {"limit": {"cls": "neg", "n": 0}}),
    ("limit_float", "both", "limit = 1.5", {"limit": {"cls": "float", "n": 0}}),
    ("policy_other", "both", 'policy = "mru"', {"policy": {"cls": "str", "p": "mru"}}),
    ("policy_upper", "both", 'policy = "LRU"', {"policy": {"cls": "str", "p": "LRU"}}),
    ("policy_int", "both", "policy = 5", {"policy": {"cls": "int", "p": ""}}),
    ("ttl_str", "both", 'ttl = "2"', {"ttl": {"cls": "str", "n": 0}}),
    ("ttl_neg", "both", "ttl = -2", {"ttl": {"cls": "neg", "n": 0}}),
    ("mem_frac", "both", 'max_memory = "1.5MB"', {"maxmem": {"cls": "frac", "n": 0}}),
    ("mem_unit", "both", 'max_memory = "12XB"', {"maxmem": {"cls": "unit", "n": 0}}),
    ("mem_bool", "both", "max_memory = true", {"maxmem": {"cls": "bool", "n": 0}}),
    ("mem_word", "both", 'max_memory = "lots"', {"maxmem": {"cls": "unit", "n": 0}}),
    ("scope_other", "sync", 'scope = "tread"', {"scope": {"cls": "str", "s": "tread"}}),
    ("scope_int", "sync", "scope = 3", {"scope": {"cls": "int", "s": ""}}),
    ("scope_on_async", "async", 'scope = "global"', {"scope": {"cls": "str", "s": "global"}}),
    ("weight_zero", "both", "frequency_weight = 0.0", {"weight": {"cls": "zero", "w": "none"}}),
    ("weight_str", "both", 'frequency_weight = "x"', {"weight": {"cls": "str", "w": "none"}}),
    ("unknown_limt", "both", "limt = 3", {"unknown": "present"}),
    ("unknown_tag", "both", 'tag = ["a"]', {"unknown": "present"}),
    ("unknown_policy_typo", "both", 'polcy = "lru"', {"unknown": "present"}),
    ("unknown_maxmem", "both", 'max_mem = "1KB"', {"unknown": "present"}),
]


def invalid_rows():
    out = []
    base = {"limit": ("int", 3), "policy": ("str", "lru"), "ttl": ("absent", 0), "maxmem": ("absent", 0, None),
            "scope": ("absent", ""), "weight": ("absent", "none", None)}
    for label, macro, text, over in INVALID:
        for m in (("sync", "async") if macro == "both" else (macro,)):
            r = dict(base, macro=m)
            t = tla_row(r, "%s_%s" % (label, m), {"verdict": "reject"})
            t.update(over)
            # companion valid attributes around the invalid one (must not mask it)
            extra = 'limit = 3, policy = "lru", ' if not text.startswith(("limit", "policy")) else ""
            out.append({"id": "%s_%s" % (label, m), "macro": m, "attrs": extra + text, "tla": t})
    return out
