#!/usr/bin/env python3
"""Regenerate /verif/MANIFEST.json from the tables below (keeps the manifest valid and current)."""
import json, os, subprocess
BASE = os.path.dirname(os.path.dirname(os.path.abspath(__file__)))
props = [json.loads(l) for l in open(os.path.join(BASE, "properties.jsonl"))]

ENGINE_TXT = ("TLC proves the property's monitor on every transition of the bounded Engine specification; the real "
              "engines' bounded state graph is explored exhaustively and every transition is checked by TLC against "
              "the specification (edge conformance); long random histories of the real code are validated step by "
              "step by TLC with ghost state recomputed from the events.")
MACRO_TXT = ("TLC proves NoMonitorFails on the bounded System specification (wrapper, registries) - the same RecordFails "
             "operator that judges recorded steps; exhaustive short operation sequences and random long histories are "
             "run against macro-generated #[cache]/#[cache_async] fixtures, every sub-event is logged with the full "
             "projected state (verif-hooks inspectors) and validated by TLC.")
KEYS_TXT = ("TLC proves the specified key construction (Keys.tla: Debug rendering joined by '|', receiver first) injective on bounded "
            "adversarial domains of 14 signatures and refutes two mutant constructions; every tuple of those domains plus seeded "
            "adversarial tuples is run through the real #[cache] and #[cache_async] functions, the real key is read back through "
            "the inspector and TLC checks real key = Key(parts) and injectivity over the whole run.")
CONC_TXT = ("The real code runs under a cooperative scheduler (parking_lot shim: every lock acquisition in unmodified cachelito-core "
            "and in macro output is a scheduling point); schedules of short 2-3 thread programs are enumerated depth-first with a "
            "preemption bound and sampled at random. A deadlock is reported only when the real code reaches 'some thread "
            "unfinished, nothing grantable' and TLC confirms the wait-for cycle; every completed schedule is logged (operation "
            "results, lock grants, state at quiescence, sequential probe) and judged by TLC (QuiesceFails, sequential monitors). "
            "The scheduler also detects parking_lot's writer-preference deadlocks (a read queued behind a waiting writer); "
            "cold-start programs (a function's first call and its Once registrations inside the concurrent section) run one "
            "fresh process per schedule. TLC proves NoDeadlock/QuiescentConsistent/ValuesCorrect on Conc.tla (cache locks) and "
            "NoDeadlock/QuiescentClean/FlatRegistry on Reg.tla (registry locks under writer preference), refutes them with the "
            "as-found/seeded protocols, and replays the recorded schedules grant by grant in ConcTrace.tla / RegTrace.tla.")
CLAIMS = {
  "C01": ("engine-seq+macro-seq", ENGINE_TXT + " " + MACRO_TXT, "6 C01"),
  "C02": ("keys", KEYS_TXT, "6 C02"),
  "C03": ("macro-seq+conc", MACRO_TXT + " Concurrent clause: " + CONC_TXT, "6 C03"),
  "C17": ("conc", CONC_TXT, "6 C17"),
  "C18": ("conc", CONC_TXT, "6 C18"),
  "C04": ("engine-seq", ENGINE_TXT, "6 C04"),
  "C05": ("engine-seq", ENGINE_TXT, "6 C05"),
  "C06": ("engine-seq", ENGINE_TXT, "6 C06"),
  "C07": ("engine-seq", ENGINE_TXT, "6 C07"),
  "C08": ("engine-seq", ENGINE_TXT, "6 C08"),
  "C09": ("macro-seq", MACRO_TXT, "6 C09"),
  "C10": ("macro-seq", MACRO_TXT, "6 C10"),
  "C11": ("macro-seq", MACRO_TXT, "6 C11"),
  "C12": ("macro-seq", MACRO_TXT, "6 C12"),
  "C13": ("macro-seq", MACRO_TXT, "6 C13"),
  "C14": ("macro-seq", MACRO_TXT, "6 C14"),
  "C15": ("macro-seq+conc", MACRO_TXT + " Concurrent clause: " + CONC_TXT, "6 C15"),
  "C16": ("engine-seq", ENGINE_TXT, "6 C16"),
  "C19": ("attrs", "Attrs.tla defines the meaning of an attribute list (reject, or the engine configuration with KB/MB/GB as powers of 1024); a covering array over attribute values x signature shapes for both macros is compiled into the harness and driven; TLC judges every recorded step (all monitors, Trace.tla) under the configuration AS WRITTEN; every invalid list of the corpus must fail to compile (cargo check diagnostics mapped back to the items).", "6 C19"),
  "C20": ("macro-seq", MACRO_TXT + " For this property the System specification lets async calls be suspended after their lookup, interleaves other operations, and resumes or drops them; the harness polls the real futures by hand (gates at every await), logs every poll, checks after each pending poll and each drop that no cache changed and no cache lock is held, and runs everything under a watchdog.", "6 C20"),
}
EXTRA = {}
try:
    EXTRA = json.load(open(os.path.join(BASE, "lib", "manifest_extra.json")))
except Exception:
    pass
for k, v in EXTRA.get("claims", {}).items():
    CLAIMS[k] = tuple(v)

NOTE = ("bounded: 3 keys, <=3-4 stores, hit counters <=1-2 for the exhaustive parts; up to 20 keys / 120 operations for "
        "random histories. Trusted: the parking_lot shim (same mutual-exclusion semantics), virtual time by re-stamping "
        "entry births, the harness' state projection and the ndjson/TLC glue.")

checks = []
for pr in props:
    pid = pr["id"]
    if pid not in CLAIMS:
        continue
    eng, txt, ref = CLAIMS[pid]
    checks.append({
        "property_id": pid,
        "quick_cmd": "./check %s --tier quick" % pid,
        "thorough_cmd": "./check %s --tier thorough" % pid,
        "evidence_file": "/verif/evidence/%s.json" % pid,
        "replay_cmd_template": "./check %s --replay {path}" % pid,
        "engine": eng,
        "technique": "explicit TLA+ specification model-checked with TLC, bound to the code by edge conformance and trace validation (TLC evaluates the property monitors on recorded steps)",
        "level_claimed": {"category": "model_checking", "text": txt, "design_ref": "DESIGN.md section " + ref},
        "level_note": NOTE,
    })
na = [{"property_id": pr["id"], "reason": EXTRA.get("na", {}).get(pr["id"], "check under construction (specification module not yet bound to the code)")}
      for pr in props if pr["id"] not in CLAIMS]
hooks_commit = subprocess.run(["git", "-C", "/repo", "log", "--format=%h", "--grep=verif-hooks"], capture_output=True, text=True).stdout.split()
m = {"version": 1,
     "setup_cmd": "cd /verif && python3 lib/gen_scoretab.py && python3 lib/gen_fixtures.py && cd harness && CARGO_NET_OFFLINE=true cargo build --offline",
     "hooks": {"guard": "verif-hooks",
               "enable": "cargo feature `verif-hooks` on cachelito-core, cachelito-macros, cachelito-async-macros (forwarded by cachelito and cachelito-async); the harness crate enables it through its path dependencies on /repo",
               "baseline_off_cmd": "cd /repo && cargo test --workspace --no-fail-fast --offline",
               "source_commits": hooks_commit, "add_only": True},
     "engines": [
         {"name": "engine-seq", "path": "spec/Engine.tla spec/Monitors.tla spec/EngineMC.tla spec/Edges.tla spec/Trace.tla harness/src/engine.rs harness/src/explore.rs",
          "serves_properties": sorted(p for p, c in CLAIMS.items() if "engine-seq" in c[0]), "kind_free_text": "TLA+ spec + TLC; Rust conformance harness at the core API level"},
         {"name": "macro-seq", "path": "spec/SysMonitors.tla spec/System.tla spec/SystemMC.tla spec/Trace.tla harness/src/macrodrv.rs harness/src/macrorun.rs harness/src/fixtures_gen.rs",
          "serves_properties": sorted(p for p, c in CLAIMS.items() if "macro-seq" in c[0]), "kind_free_text": "TLA+ spec + TLC; Rust conformance harness over macro-generated fixtures (verif-hooks inspectors)"},
         {"name": "keys", "path": "spec/Keys.tla spec/KeysMC.tla spec/KeysTrace.tla harness/src/keyfix.rs lib/key_scripts.py",
          "serves_properties": ["C02"], "kind_free_text": "TLA+ spec of key rendering + TLC; key fixtures of 15 signatures (sync+async, methods)"},
         {"name": "conc", "path": "harness/shim/parking_lot harness/shim/dashmap harness/src/conc.rs spec/SysMonitors.tla (QuiesceFails, GenuineDeadlock) spec/Trace.tla spec/Conc.tla spec/ConcMC.tla spec/ConcTrace.tla spec/Reg.tla spec/RegMC.tla spec/RegTrace.tla lib/conc_checks.py",
          "serves_properties": ["C03", "C15", "C17", "C18"], "kind_free_text": "schedule exploration of the real code under a lock-granular cooperative scheduler; TLC judges the records"},
         {"name": "attrs", "path": "spec/Attrs.tla lib/attr_corpus.py lib/gen_fixtures.py harness/src/corpus_gen_real.rs lib/attrs_check.py",
          "serves_properties": ["C19"], "kind_free_text": "TLA+ meaning of attribute lists + generated corpus of decorated functions (valid: compiled and driven; invalid: must not compile)"},
     ] + EXTRA.get("engines", []),
     "checks": checks,
     "not_applicable": na,
     "notes": "All checks: ./check <id> --tier quick|thorough. Exit 0 held / 1 VIOLATION / 2 tool error. See DESIGN.md."}
json.dump(m, open(os.path.join(BASE, "MANIFEST.json"), "w"), indent=1)
print("claimed", len(checks), "not_applicable", len(na))
