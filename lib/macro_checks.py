"""Macro-level checks (decorated functions, registries): C01 (wrapper part), C03, C09-C15.

Per check:
  1. TLC model-checks System.tla on the property's layout family and proves NoMonitorFails - the
     same RecordFails operator that judges recorded steps;
  2. scripts (exhaustive short operation sequences + long random histories) are run against the
     generated #[cache] / #[cache_async] fixtures, every sub-event logged with the full projected
     state (verif-hooks inspectors), and validated by TLC (Trace.tla).
"""
import itertools, json, os, random, time
from vlib import *
from macro_scripts import *
import replay as _rp

SYS_MC = {
    "C01": dict(layout="c01", keys={"k1", "k2", "k3"}, lookups=3),
    "C03": dict(layout="c03", keys={"k1", "k2", "k3"}, lookups=3),
    "C09": dict(layout="c09", keys={"k1", "k2", "k3"}, lookups=3),
    "C10": dict(layout="c10", keys={"k1", "k2", "k3"}, lookups=3),
    "C11": dict(layout="c11", keys={"k1", "k2", "k3"}, lookups=3),
    "C12": dict(layout="reg", keys={"k1", "k2"}, lookups=2),
    "C13": dict(layout="reg", keys={"k1", "k2"}, lookups=2),
    "C14": dict(layout="thread", keys={"k1", "k2", "k3"}, lookups=3),
    "C15": dict(layout="c15", keys={"k1", "k2", "k3"}, lookups=5),
    "C20": dict(layout="c20", keys={"k1", "k2"}, lookups=3),
}

KINDS = (("sync", "s"), ("thread", "t"), ("async", "a"))


def seqs(alphabet, length):
    return itertools.product(alphabet, repeat=length)


def scripts_for(pid, tier, seed, fx):
    rng = random.Random(seed * 1000 + int(pid[1:]))
    thorough = tier == "thorough"
    out = []
    sid = [0]

    def add(names, ops, threads=1, nowarm=()):
        sid[0] += 1
        out.append({"id": sid[0], "fixtures": list(names), "threads": threads, "nowarm": list(nowarm),
                    "ops": [dict(o) for o in ops]})

    def rnd(names, n, length, **kw):
        for _ in range(n):
            sid[0] += 1
            out.append(random_script(rng, fx, names, sid[0], length, **kw))

    plain = [n for n in fx if not n.startswith("g_") and not n.startswith("a_await")]
    if pid == "C01":
        # every fixture family, long random histories with clock steps and invalidations
        for n in plain:
            rnd([n], 30 if thorough else 2, 90 if thorough else 36)
        groups = [n for n in fx if n.startswith("g_")]
        rnd(groups[:5], 300 if thorough else 8, 60, registry=True)
        for _ in range(600 if thorough else 12):
            rnd(rng.sample(plain, 3), 1, 60)
    elif pid == "C03":
        for _, p in KINDS:
            for f in (p + "_plain_ret", p + "_plain_long"):
                for s in seqs([1, 2, 3], 4):
                    add([f], [{"op": "call", "f": f, "k": k} for k in s], threads=1)
            f = p + "_plain"
            L = 6 if thorough else 5
            for s in seqs([1, 2, 3], L):
                add([f], [{"op": "call", "f": f, "k": k} for k in s], threads=1)
            # a policy alone (no limit, ttl or memory bound) configures nothing that could drop a result
            for pol in ("lru", "lfu", "arc", "random", "tlru"):
                f2 = "%s_%s_unb" % (p, pol)
                for s in seqs([1, 2, 3], 4):
                    add([f2], [{"op": "call", "f": f2, "k": k} for k in s], threads=1)
                rnd([f2], 2, 60, nkeys=20)
            # thread scope / sharing: all partitions of a history over two threads
            for s in seqs([(1, 1), (1, 2), (2, 1), (2, 2)], 5 if thorough else 4):
                add([f], [{"op": "call", "f": f, "t": t, "k": k} for (t, k) in s], threads=2)
            rnd([f], 300 if thorough else 6, 150 if thorough else 60, threads=3, nkeys=20)
    elif pid == "C09":
        for _, p in KINDS:
            for f in (p + "_res", p + "_res_lru2", p + "_res_lfu2", p + "_res_std", p + "_res_mem_lru", p + "_res_ret"):
                L = 5 if thorough else 4
                for s in seqs([(1, True), (1, False), (2, True), (2, False)], L):
                    add([f], [{"op": "call", "f": f, "k": k, "ok": ok, "size": 70} for (k, ok) in s]
                        + [{"op": "call", "f": f, "k": 3, "ok": True, "size": 70},
                           {"op": "call", "f": f, "k": 1, "ok": True, "size": 70}])
                rnd([f], 150 if thorough else 4, 80 if thorough else 60)
            # ... with invalidate_on: a stale Ok is recomputed; if that fails nothing is stored (and the stale
            # Ok must not be served either), the next Ok is stored
            for f in (p + "_res_inv", p + "_res_inv_lru2"):
                alpha = [{"op": "call", "f": f, "k": 1, "ok": True, "inv": False}, {"op": "call", "f": f, "k": 1, "ok": False, "inv": True},
                         {"op": "call", "f": f, "k": 1, "ok": True, "inv": True}, {"op": "call", "f": f, "k": 1, "ok": False, "inv": False},
                         {"op": "call", "f": f, "k": 2, "ok": True, "inv": False}]
                for s in seqs(alpha, 5 if thorough else 4):
                    add([f], [dict(o) for o in s] + [{"op": "call", "f": f, "k": 1, "ok": True, "inv": False},
                                                     {"op": "call", "f": f, "k": 1, "ok": True, "inv": False}])
                rnd([f], 100 if thorough else 3, 60)
            # ... with a ttl: an Ok expires, the recomputation fails (nothing is stored), later Oks are stored
            f = p + "_res_ttl2"
            alpha = [{"op": "call", "f": f, "k": 1, "ok": True}, {"op": "call", "f": f, "k": 1, "ok": False},
                     {"op": "call", "f": f, "k": 2, "ok": True}, {"op": "call", "f": f, "k": 3, "ok": True},
                     {"op": "tick", "d": 2}]
            for s in seqs(alpha, 5 if thorough else 4):
                add([f], [dict(alpha[0])] + [dict(o) for o in s]
                    + [{"op": "call", "f": f, "k": 2, "ok": True}, {"op": "call", "f": f, "k": 3, "ok": True}])
            rnd([f], 150 if thorough else 4, 80 if thorough else 60)
    elif pid == "C10":
        for _, p in KINDS:
            for f in (p + "_cif", p + "_cif_lru2", p + "_inv_cif", p + "_cif_mem", p + "_cif_ttl2"):
                for s in seqs([(1, True), (1, False), (2, True), (2, False)], 5 if thorough else 4):
                    add([f], [{"op": "call", "f": f, "k": k, "cif": c, "inv": False, "size": 60} for (k, c) in s]
                        + [{"op": "call", "f": f, "k": 3, "cif": True}, {"op": "call", "f": f, "k": 1, "cif": True}])
                rnd([f], 150 if thorough else 4, 80 if thorough else 60)
            f = p + "_res_cif"
            for s in seqs([(1, True, True), (1, True, False), (1, False, True), (1, False, False), (2, True, True)],
                          4 if thorough else 3):
                add([f], [{"op": "call", "f": f, "k": k, "cif": c, "ok": ok} for (k, c, ok) in s]
                    + [{"op": "call", "f": f, "k": 1, "cif": True, "ok": True}])
            rnd([f], 150 if thorough else 4, 80 if thorough else 60)
    elif pid == "C11":
        for _, p in KINDS:
            for f in (p + "_inv", p + "_inv_lru2", p + "_inv_cif", p + "_inv_lfu2", p + "_inv_arc2", p + "_inv_tlru3_ttl3", p + "_inv_random2",
                      p + "_res_inv_lru2"):
                for s in seqs([(1, True), (1, False), (2, True), (2, False)], 5 if thorough else 4):
                    add([f], [{"op": "call", "f": f, "k": k, "inv": i, "cif": True} for (k, i) in s]
                        + [{"op": "call", "f": f, "k": 1, "inv": False}, {"op": "call", "f": f, "k": 2, "inv": False}])
                rnd([f], 150 if thorough else 4, 80 if thorough else 60)
            f = p + "_inv_mem"
            for s in seqs([(1, True, 50), (1, False, 50), (1, True, 130), (2, True, 60), (2, False, 130)], 4 if thorough else 3):
                add([f], [{"op": "call", "f": f, "k": k, "inv": i, "size": sz} for (k, i, sz) in s]
                    + [{"op": "call", "f": f, "k": 1, "inv": False, "size": 50}, {"op": "call", "f": f, "k": 2, "inv": False, "size": 50}])
            rnd([f], 150 if thorough else 4, 80 if thorough else 60)
            f = p + "_inv_ttl2"
            alpha = [{"op": "call", "f": f, "k": 1, "inv": True}, {"op": "call", "f": f, "k": 1, "inv": False},
                     {"op": "tick", "d": 1}, {"op": "call", "f": f, "k": 2, "inv": False}]
            for s in seqs(alpha, 5 if thorough else 4):
                add([f], list(s) + [{"op": "call", "f": f, "k": 1, "inv": False}])
            rnd([f], 150 if thorough else 4, 80 if thorough else 60)
    elif pid in ("C12", "C13"):
        groups = [n for n in fx if n.startswith("g_")]
        for _ in range(2500 if thorough else 60):
            ns = rng.sample(groups, rng.choice([2, 3, 4, 5]))
            rnd(ns, 1, 60 if thorough else 40, registry=True, stats=False, nkeys=4)
        # the same label used for different kinds of grouping by different functions
        xg = ["g_x1", "g_x2", "g_x3", "g_x4"]
        for _ in range(600 if thorough else 20):
            ns = xg + rng.sample([g for g in groups if g not in xg], rng.choice([0, 1, 2]))
            rnd(ns, 1, 60 if thorough else 45, registry=True, stats=False, nkeys=3)
        # labels differing only in case / blanks, next to their plain namesakes
        ug = ["g_u1", "g_u2", "g_a", "g_ab"]
        for _ in range(400 if thorough else 20):
            ns = ug + rng.sample([g for g in groups if g not in ug], rng.choice([0, 1]))
            rnd(ns, 1, 60 if thorough else 45, registry=True, stats=False, nkeys=3)
        # policies / limits behind invalidate_with on ordinary fixtures
        for _, p in KINDS[0:3:2]:
            for f in (p + "_lru2", p + "_lfu3_ttl2", p + "_arc2", p + "_mem_lru", p + "_fifo3_ttl2"):
                rnd([f], 150 if thorough else 3, 60, registry=True, nkeys=5)
    elif pid == "C14":
        for pol in ("plain", "lru2", "fifo2", "lfu2", "arc2", "random2", "tlru2"):
            tf, sf, af = "t_" + pol, "s_" + pol, "a_" + pol
            L = 5 if thorough else 4
            for s in seqs([(1, 1), (1, 2), (2, 1), (2, 2), (3, 1)], L):
                add([tf], [{"op": "call", "f": tf, "t": t, "k": k} for (t, k) in s]
                    + [{"op": "call", "f": tf, "t": t, "k": k} for t in (1, 2, 3) for k in (1, 2)], threads=3)
            for f in (sf, af):
                for s in seqs([(1, 1), (1, 2), (2, 1), (2, 2)], L):
                    add([f], [{"op": "call", "f": f, "t": t, "k": k} for (t, k) in s]
                        + [{"op": "call", "f": f, "t": 3, "k": 1}, {"op": "call", "f": f, "t": 3, "k": 2}], threads=3)
            rnd([tf, sf, af], 150 if thorough else 3, 100, threads=4, nkeys=4)
            if pol in ("lru2", "arc2", "tlru2", "lfu2"):
                # a full shared cache, hits spread over two threads, then a store by a third: the victim
                # depends on the shared use history only
                for f in (sf, af):
                    for s in seqs([(1, 1), (1, 2), (2, 1), (2, 2)], 4 if thorough else 3):
                        add([f], [{"op": "call", "f": f, "t": 1, "k": 1}, {"op": "call", "f": f, "t": 2, "k": 2}]
                            + [{"op": "call", "f": f, "t": t, "k": k} for (t, k) in s]
                            + [{"op": "call", "f": f, "t": 3, "k": 3}, {"op": "call", "f": f, "t": 1, "k": 1},
                               {"op": "call", "f": f, "t": 2, "k": 2}], threads=3)
        for tf in ("t_mem_lru", "t_mem_fifo", "t_mem_lfu", "t_mem_arc_l3"):
            for s in seqs([(1, 1), (1, 2), (1, 3), (2, 1), (2, 4), (3, 1)], 5 if thorough else 4):
                add([tf], [{"op": "call", "f": tf, "t": t, "k": k, "size": 40} for (t, k) in s]
                    + [{"op": "call", "f": tf, "t": t, "k": k, "size": 40} for t in (1, 2) for k in (1, 2, 3)], threads=3)
            rnd([tf], 100 if thorough else 4, 90, threads=3, nkeys=5)
        for tf in ("t_tags", "t_deps"):
            for s in seqs([(1, 1), (1, 2), (2, 1), (2, 2), (3, 1)], 5 if thorough else 4):
                add([tf], [{"op": "call", "f": tf, "t": t, "k": k} for (t, k) in s]
                    + [{"op": "call", "f": tf, "t": t, "k": k} for t in (1, 2, 3) for k in (1, 2)], threads=3)
            rnd([tf, "g_a"], 100 if thorough else 4, 80, threads=3, nkeys=3, registry=True)
    elif pid == "C20":
        for f in ("a_await1", "a_await2_ttl2", "a_await3_res", "a_await2_mem", "a_await1_arc", "a_await2_tlru_ttl3",
                  "a_await1_inv"):
            fi = fx[f]
            aw = fi["awaits"]
            cn = fi["cache_name"]
            mid_alpha = [{"op": "call", "f": f, "k": 1, "size": 60}, {"op": "call", "f": f, "k": 2, "size": 60},
                         {"op": "call", "f": f, "k": 3, "size": 60},
                         {"op": "inv_with", "x": cn, "sel": ["1"]}, {"op": "inv_all_with", "sel": {cn: ["1", "2"]}},
                         {"op": "start", "task": "B", "f": f, "k": 1, "size": 60},
                         {"op": "start", "task": "B", "f": f, "k": 2, "size": 60}]
            if fi["cfg"]["ttl"]:
                mid_alpha.append({"op": "tick", "d": fi["cfg"]["ttl"]})
            if fi["isResult"]:
                mid_alpha.append({"op": "call", "f": f, "k": 1, "ok": False})
            if fi["hasInv"]:
                # the stored entry is declared stale: the call recomputes and RE-stores an existing key
                mid_alpha.append({"op": "call", "f": f, "k": 1, "size": 60, "inv": True})
                mid_alpha.append({"op": "start", "task": "B", "f": f, "k": 1, "size": 60, "inv": True})
            probe = [{"op": "call", "f": f, "k": 1, "size": 60}, {"op": "call", "f": f, "k": 2, "size": 60},
                     {"op": "call", "f": f, "k": 4, "size": 60}, {"op": "call", "f": f, "k": 1, "size": 60}]
            for pre in ([], [{"op": "call", "f": f, "k": 1, "size": 60}, {"op": "call", "f": f, "k": 2, "size": 60}]):
                for s_at in range(0, aw):              # gates already passed when the others run
                    for L in (1, 2) if not thorough else (1, 2, 3):
                        for mid in seqs(range(len(mid_alpha)), L):
                            for ending in ("finish", "drop"):
                                for okA in ((True, False) if fi["isResult"] else (True,)):
                                    ops = [dict(o) for o in pre]
                                    ops.append({"op": "start", "task": "A", "f": f, "k": 1, "ok": okA, "size": 60})
                                    for g in range(1, s_at + 1):
                                        ops.append({"op": "resume", "task": "A", "upto": g})
                                    hasB = False
                                    for j in mid:
                                        o = dict(mid_alpha[j])
                                        if o["op"] == "start":
                                            if hasB:
                                                continue
                                            hasB = True
                                        ops.append(o)
                                    if ending == "finish":
                                        for g in range(s_at + 1, aw + 1):
                                            ops.append({"op": "resume", "task": "A", "upto": g})
                                    else:
                                        ops.append({"op": "drop", "task": "A"})
                                    if hasB:
                                        # other keys are used between the two endings: B resumes against a
                                        # cache in which A's store is no longer the most recent event
                                        for j in rng.choice([[], [1], [2], [1, 0], [2, 1]]):
                                            ops.append(dict(mid_alpha[j]))
                                        if rng.random() < 0.5:
                                            ops.append({"op": "resume", "task": "B", "upto": aw})
                                        else:
                                            ops.append({"op": "drop", "task": "B"})
                                    add([f], ops + probe)
        if not thorough and len(out) > 2500:
            rng.shuffle(out)
            del out[2500:]
    elif pid == "C15":
        unb = ["%s_%s_unb" % (p, pol) for p in ("s", "a") for pol in ("lru", "lfu", "arc", "random", "tlru")]
        for f in unb:
            for s in seqs([1, 2], 4):
                add([f], [{"op": "call", "f": f, "k": k} for k in s] + [{"op": "stats_get", "x": fx[f]["cache_name"]}], threads=1)
        names = unb + ["s_plain", "a_plain", "s_lru2", "a_lfu3_ttl2", "s_ttl1", "a_ttl1", "s_res", "a_res_cif",
                 "g_alias", "g_alias_async", "g_a", "g_dep", "s_inv", "a_inv_ttl2", "s_mem_lru", "a_mem_fifo"]
        for _ in range(3000 if thorough else 60):
            ns = rng.sample(names, rng.choice([1, 2, 3]))
            rnd(ns, 1, 70 if thorough else 45, stats=True, registry=any(n.startswith("g_") for n in ns), threads=3)
    return out


def nowarm_scripts(pid, seed, fx, tier_="quick"):
    """Histories in which some functions are first called mid-run (registration order matters);
    each needs a fresh process."""
    rng = random.Random(seed * 77 + int(pid[1:]))
    groups = [n for n in fx if n.startswith("g_")]
    out = []
    for i in range(6 if tier_ != "thorough" else 40):
        ns = rng.sample(groups, 4)
        cold = ns[:2]
        s = random_script(rng, fx, ns, 9000 + i, 45, registry=True, nkeys=3, threads=1)
        s["nowarm"] = cold
        # make sure invalidations happen both before and after the cold functions' first call
        out.append(s)
    return out


def spec_generated_scripts(pid, tier, seed, wd):
    """Spec -> code: behaviours of System.tla generated by TLC (simulation mode) for the configurations of real
    fixtures (spec/FixtureLayouts.tla), as scripts for the macro driver."""
    thorough = tier == "thorough"
    cfg = os.path.join(wd, "SystemSim.cfg")
    depth = 24 if thorough else 16
    write_cfg(cfg, "Spec", {"Quirks": set(), "Keys": {"1", "2", "3"}, "SimKeys": {"1", "2", "3"}, "MaxVer": 100000,
                            "MaxHits": 100000, "SizesMem": {40}, "Sizes": {40, 64, 130}, "Depth": depth},
              invariants=["Emit"])
    meta = os.path.join(WORK, "meta_%s_sim" % pid)
    shutil.rmtree(meta, ignore_errors=True)
    n = 20000 if thorough else 500
    p = sh(["timeout", "900", "tlc", "-workers", "1", "-simulate", "num=%d" % n, "-depth", str(depth * 2 + 4), "-seed", str(seed),
            "-metadir", meta, "-cleanup", "-noGenerateSpecTE", "-config", cfg, os.path.join(SPEC, "SystemSim.tla")],
           cwd=SPEC, env={"JAVA_TOOL_OPTIONS": "-Xss1g"}, timeout=2500, check=False)
    shutil.rmtree(meta, ignore_errors=True)
    scripts, seen = [], set()
    for line in p.stdout.splitlines():
        if not line.startswith('<<"SCRIPT", "'):
            continue
        body = line[len('<<"SCRIPT", "'):-3]
        if body in seen:
            continue
        seen.add(body)
        js = json.loads(body.replace('\\"', '"').replace('\\\\', '\\'))
        ops = []
        for o in js["ops"]:
            o = dict(o)
            if o["op"] == "call":
                o["k"] = int(o["k"])
            ops.append(o)
        scripts.append({"id": 50000 + len(scripts), "fixtures": [js["fixture"]], "threads": 1, "ops": ops,
                        "spec_final": js["final"]})
    if not scripts:
        raise ToolError("TLC simulation produced no behaviours:\n" + p.stdout[-1500:])
    return scripts


def run_macro_check(pid, tier, seed, wd):
    t_start = time.time()
    thorough = tier == "thorough"
    fx = load_fixtures()
    info = {}
    violations, drift_notes = [], []

    # ------------------------------------------------------------------ 1. model checking
    mc = SYS_MC[pid]
    mc_cfg = os.path.join(wd, "SystemMC.cfg")
    # the registry layout (three functions) and the thread layout (a cache per thread) get a thorough bound
    # that is one version deeper than the quick one, not two
    big = mc["layout"] in ("reg", "thread")
    consts = {"Quirks": set(), "Keys": set(mc["keys"]), "MaxVer": (4 if big else 5) if thorough else 3,
              "MaxHits": (1 if big else 2) if thorough else 1,
              "SizesMem": {1, 2, 4}, "LayoutSet": mc["layout"], "MaxLookups": mc["lookups"]}
    write_cfg(mc_cfg, "Spec", consts, invariants=["SysStateOK", "StatsAgree"], properties=["NoMonitorFails"],
              constraint="Bounded", view="View")
    r = tlc_mc("SystemMC", mc_cfg, pid + "_sysmc", workers=12, timeout=3000 if thorough else 600)
    if not r["ok"]:
        raise ToolError("TLC did not prove NoMonitorFails on System.tla (layout %s):\n%s" %
                        (mc["layout"], "\n".join(r["errors"][:5]) or r["out"][-3000:]))
    info["mc"] = {"module": "SystemMC", "layout": mc["layout"], "states": r["distinct"],
                  "transitions": r["generated"], "wall_s": r["wall_s"],
                  "proved": ["NoMonitorFails (RecordFails = {} on every step)", "SysStateOK", "StatsAgree"]}
    log("[%s] TLC proved NoMonitorFails on System (layout %s): %d states / %d transitions (%.0fs)" %
        (pid, mc["layout"], r["distinct"], r["generated"], r["wall_s"]))

    # ------------------------------------------------------------------ 2. scripted + random histories
    scripts = scripts_for(pid, tier, seed, fx)
    sim = spec_generated_scripts(pid, tier, seed, wd)
    scripts += sim
    sp = os.path.join(wd, "scripts.jsonl")
    write_scripts(sp, scripts)
    tr = os.path.join(wd, "traces.ndjson")
    rs = harness_json(["macro", "--script", sp, "--out", tr], timeout=3000)
    extra = []
    if pid in ("C12", "C13"):
        for i, s in enumerate(nowarm_scripts(pid, seed, fx, tier)):
            spi = os.path.join(wd, "nowarm_%d.jsonl" % i)
            write_scripts(spi, [s])
            tri = os.path.join(wd, "nowarm_%d.ndjson" % i)
            harness_json(["macro", "--script", spi, "--out", tri])
            extra.append(tri)
        with open(tr, "a") as f:
            for tri in extra:
                f.write(open(tri).read())
    tcfg = os.path.join(wd, "Trace.cfg")
    write_cfg(tcfg, "TraceSpec", {"Quirks": set()}, invariants=["Done"])
    tv = validate_file("Trace", tcfg, tr, pid + "_macro", nshards=14, timeout=3000)
    if tv["errors"]:
        raise ToolError("trace validation incomplete: " + "; ".join(tv["errors"][:3]))
    mine = sorted(set(l for (i, l) in tv["fails"] if i == pid))
    os.makedirs(REPLAYS, exist_ok=True)
    for ln in mine[:10]:
        tp = os.path.join(REPLAYS, "%s_macro_%d_%d.ndjson" % (pid, seed, ln))
        inner = extract_trace(tr, ln, tp)
        tid = json.loads(open(tp).readline()).get("trace")
        sc = next((x for x in scripts if x["id"] == tid), None)
        if sc:
            _rp.sidecar(tp, "macro", {"script": sc})
        violations.append(("monitor of %s false on line %d of a macro-level history" % (pid, inner), tp))
    for (i, l) in tv["drifts"][:10]:
        drift_notes.append("SPEC-DRIFT macro trace line=%d (%s)" % (l, i))
    ntr = len(scripts) + len(extra)
    info["spec_generated_behaviours"] = len(sim)
    info["macro"] = {"traces": ntr, "events": tv["lines"], "drift": len(tv["drifts"]),
                     "monitor_failures": len(mine), "fresh_process_histories": len(extra)}
    log("[%s] macro-level histories: %d traces (%d of them behaviours generated by TLC from System.tla) / %d events validated by TLC; drift %d, monitor failures %d" %
        (pid, ntr, len(sim), tv["lines"], len(tv["drifts"]), len(mine)))
    with open(tr) as f:
        first = [json.loads(next(f)) for _ in range(4)]
    for e in first:
        e.pop("pmetas", None)
    coverage = {
        "states": r["distinct"], "transitions": r["generated"],
        "traces_validated_against_impl": ntr,
        "events_validated": tv["lines"],
        "samples": [{"kind": "macro-level history (first events)", "events": first},
                    {"kind": "script", "script": scripts[0]}],
        "exhaustive": False,
        "explanation": "TLC proved NoMonitorFails on the bounded System specification; exhaustive short "
                       "operation sequences and random long histories were run against the macro-generated "
                       "fixtures and every logged step was judged by TLC.",
        "details": info, "spec_drift": drift_notes[:20],
    }
    return violations, drift_notes, coverage, time.time() - t_start
