"""C02: cache-key construction. Keys.tla / KeysMC.tla (bounded injectivity, TLC) + KeysTrace.tla
(real keys of the macro-generated functions equal the specified rendering; no two tuples share a key)."""
import json, os, random, re, time
from vlib import *
from key_scripts import *
import replay as _rp


def run_keys_check(pid, tier, seed, wd):
    t0 = time.time()
    thorough = tier == "thorough"
    alpha, l2, l3 = ("adv9", 2, 1) if not thorough else ("adv9", 2, 2)
    if thorough:
        alpha_mc, l2, l3 = "adv9", 2, 2
    else:
        alpha_mc = "adv7"
    info, violations, drift = {}, [], []
    consts = {"AlphabetId": alpha_mc, "MaxLen2": l2, "MaxLen3": l3, "IntLoNeg": 12, "IntHi": 123, "Variant": "key"}
    cfg = os.path.join(wd, "KeysMC.cfg")
    write_cfg(cfg, "Spec", consts, invariants=["KeyInjective"])
    r = tlc_mc("KeysMC", cfg, pid + "_keysmc", workers=14, timeout=3000)
    sizes = {m.group(1): int(m.group(2)) for m in re.finditer(r'<<"SIG", "([a-z_]+)", (\d+)>>', r["out"])}
    if not r["ok"]:
        raise ToolError("TLC did not prove key injectivity on the specification:\n" + "\n".join(r["errors"][:4]) or r["out"][-2000:])
    # non-vacuity: the two mutant key constructions must be refuted by the same check
    for variant in ("nosep", "display"):
        c2 = dict(consts, Variant=variant)
        cfg2 = os.path.join(wd, "KeysMC_%s.cfg" % variant)
        write_cfg(cfg2, "Spec", c2, invariants=["KeyInjective"])
        r2 = tlc_mc("KeysMC", cfg2, pid + "_keysmc_" + variant, workers=14, timeout=3000)
        if r2["ok"]:
            raise ToolError("self-test: mutant key construction '%s' was NOT refuted by KeysMC" % variant)
    ntuples = sum(sizes.values())
    info["mc"] = {"signatures": sizes, "tuples_proved_injective": ntuples, "alphabet": alpha_mc,
                  "mutants_refuted": ["nosep", "display"], "wall_s": r["wall_s"]}
    log("[%s] TLC proved Key injective on %d tuples of %d signatures; separator-less and Display mutants refuted" %
        (pid, ntuples, len(sizes)))

    D = domains(alpha_mc, l2, l3, 12, 123)
    for s, pl in D.items():
        if len(pl) != sizes.get(s):
            raise ToolError("domain mismatch for %s: TLC %s vs generator %d" % (s, sizes.get(s), len(pl)))
    rng = random.Random(seed)
    R = random_tuples(rng, 20000 if thorough else 250)
    groups = []
    for flav in ("sync", "async"):
        for sig, pl in D.items():
            if sig == "m_u_u_u" and flav == "async":
                continue        # a primitive receiver needs a trait impl: sync only
            groups.append((sig, flav, pl + R.get(sig, []), True))
        groups.append(("f_f", flav, R["f_f"], False))
    sp = os.path.join(wd, "keys.jsonl")
    n = write_key_script(sp, groups)
    tr = os.path.join(wd, "keys.ndjson")
    harness_json(["keys", "--script", sp, "--out", tr], timeout=3000)
    kcfg = os.path.join(wd, "KeysTrace.cfg")
    with open(kcfg, "w") as f:
        f.write("SPECIFICATION KSpec\nINVARIANT Done\nCHECK_DEADLOCK FALSE\n")
    tv = validate_file("KeysTrace", kcfg, tr, pid + "_keys", nshards=14, boundary='"first":true', timeout=3000)
    if tv["errors"]:
        raise ToolError("key trace validation incomplete: " + "; ".join(tv["errors"][:3]))
    fails = sorted(set(l for (i, l) in tv["fails"] if i == "C02"))
    os.makedirs(REPLAYS, exist_ok=True)
    lines = open(tr).readlines()
    if fails:
        # locate colliding tuples for the replay file
        bykey = {}
        coll = []
        for i, l in enumerate(lines):
            e = json.loads(l)
            k = (e["fn"], e["key"])
            p = json.dumps(e["parts"], sort_keys=True)
            if k in bykey and bykey[k][1] != p:
                coll.append((bykey[k][0], i))
            bykey.setdefault(k, (i, p))
            if not (e["executed"] and e["again_hit"]):
                coll.append((i, i))
        for (a, b) in coll[:5]:
            tp = os.path.join(REPLAYS, "%s_keys_%d_%d.ndjson" % (pid, a + 1, b + 1))
            with open(tp, "w") as f:
                f.write(lines[a])
                if b != a:
                    f.write(lines[b])
            ea, eb = json.loads(lines[a]), json.loads(lines[b])
            _rp.sidecar(tp, "keys", {"lines": [{"sig": e["sig"], "flavour": e["flavour"], "model": e["model"], "parts": e["parts"]}
                                               for e in ([ea] if a == b else [ea, eb])]})
            violations.append(("%s: distinct argument tuples share the cache key %r" % (ea["fn"], ea["key"])
                               if a != b else "%s: repeated call with the same tuple was not served from the cache" % ea["fn"], tp))
        if not coll:
            violations.append(("key injectivity monitor failed (lines %s)" % fails[:5], tr))
    nd = len(tv["drifts"])
    if nd:
        first = tv["drifts"][0][1]
        drift.append("SPEC-DRIFT %d real keys differ from the specified rendering Keys!Key (first: line %d: %s); "
                     "injectivity of the real keys is still checked directly" % (nd, first, lines[first - 1][:200].strip()))
    info["trace"] = {"tuples_run": n, "format_drift": nd, "collisions": len(fails)}
    log("[%s] %d argument tuples run through the real sync and async key generators; format drift %d, violations %d" %
        (pid, n, nd, len(fails)))
    cov = {"states": ntuples, "transitions": ntuples, "traces_validated_against_impl": n,
           "samples": [json.loads(lines[i]) for i in (0, len(lines) // 2, len(lines) - 1)],
           "exhaustive": True,
           "explanation": "TLC proves Key injective on the bounded domains of 14 signatures (states = tuples); every tuple "
                          "of those domains plus adversarial random tuples is run through the real #[cache] and "
                          "#[cache_async] functions and the real key read back; TLC checks real key = Key(parts) and "
                          "whole-file injectivity.",
           "details": info, "spec_drift": drift}
    return violations, drift, cov, time.time() - t0
