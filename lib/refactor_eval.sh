#!/bin/bash
# usage: refactor_eval.sh <name> <worktree>   -- apply a behaviour-preserving change and run every quick check
NAME=$1; WT=$2
OUT=/verif/seeded/preserving/$NAME
mkdir -p $OUT
cp $WT/out/patch.diff $OUT/patch.diff; cp $WT/out/notes.md $OUT/notes.md 2>/dev/null
cd /repo && git apply $OUT/patch.diff || { echo "patch does not apply"; exit 3; }
RES=""
for P in C01 C02 C03 C04 C05 C06 C07 C08 C09 C10 C11 C12 C13 C14 C15 C16 C17 C18 C19 C20; do
  ( cd /verif && ./check $P --tier quick > $OUT/check_$P.log 2>&1 ); RC=$?
  RES="$RES $P:$RC"
  echo "$P rc=$RC $(grep -c '^SPEC-DRIFT' $OUT/check_$P.log) drift-lines; $(grep -E '^VIOLATION|^TOOL-ERROR' $OUT/check_$P.log | head -2 | cut -c1-200)"
done
cd /repo && git checkout -- .
git -C /repo status --short | head -3
echo "result:$RES" | tee $OUT/result.txt
