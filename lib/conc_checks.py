"""Concurrent checks: C17 (no deadlock), C18 (values + consistency under concurrency, sequential
probe afterwards) and the concurrent clauses of C03 / C15.

The real code runs under the cooperative scheduler of the parking_lot shim (every lock acquisition
is a scheduling point): schedules of short 2-3 thread programs are enumerated depth-first with a
preemption bound and sampled at random. Per schedule the harness logs a `quiesce` record (operation
results, lock grants, full state once all threads have returned) followed by a sequential probe
history; TLC (Trace.tla) judges every record: QuiesceFails, GenuineDeadlock and the sequential
monitors on the probe.
"""
import itertools, json, os, random, time
from vlib import *
from macro_scripts import load_fixtures
import replay as _rp

SYNC_FIX = ["s_lru2", "s_fifo3_ttl2", "s_lfu2", "s_arc2", "s_mem_lru", "g_a", "s_plain", "s_inv_lru2", "s_res_lru2",
            "s_random2", "s_tlru2_ttl3_w03", "g_ab", "s_res_ttl2", "s_cif_ttl2", "s_yield_lru2"]
ASYNC_FIX = ["a_lru2", "a_fifo3_ttl2", "a_lfu2", "a_arc2", "a_mem_lru", "g_dep", "a_plain", "a_inv_lru2", "a_res_lru2",
             "a_random2", "a_tlru2_ttl3_w03", "g_ev", "a_res_ttl2", "a_cif_ttl2", "a_yield_lru2"]


def call(f, k, **kw):
    d = {"op": "call", "f": f, "k": k, "size": 60}
    d.update(kw)
    return d


def alphabet(fx, f, with_stats=True, with_reset=True):
    fi = fx[f]
    cn = fi["cache_name"]
    A = [call(f, 1), call(f, 2), call(f, 3), call(f, 4)]
    if fi["isResult"]:
        A += [call(f, 1, ok=False), call(f, 2, ok=False)]
    if fi["hasCif"]:
        A += [call(f, 1, cif=False), call(f, 2, cif=False)]
    A += [{"op": "inv_with", "x": cn, "sel": ["1"]}, {"op": "inv_with", "x": cn, "sel": ["1", "2", "3", "4"]},
          {"op": "inv_all_with", "sel": {cn: ["2", "3"]}}]
    if fi["tags"]:
        A.append({"op": "inv_tag", "x": fi["tags"][0]})
        A.append({"op": "inv_name", "x": cn})
    if fi["events"]:
        A.append({"op": "inv_event", "x": fi["events"][0]})
        A.append({"op": "inv_name", "x": cn})
    if with_stats:
        A.append({"op": "stats_get", "x": cn})
        if with_reset:
            A.append({"op": "stats_reset", "x": cn})
    return A


def prefixes(fx, f):
    fi = fx[f]
    P = [[]]
    full = [call(f, 1), call(f, 2), call(f, 3)]
    P.append(full)
    if fi["cfg"]["ttl"]:
        P.append(full + [{"op": "tick", "d": fi["cfg"]["ttl"]}])
        P.append([call(f, 1), {"op": "tick", "d": fi["cfg"]["ttl"]}, call(f, 2)])
    return P


def programs(rng, A, nthreads, maxlen, n):
    out = []
    seqs = []
    for L in range(1, maxlen + 1):
        seqs += list(itertools.product(range(len(A)), repeat=L))
    allp = None
    total = len(seqs) ** nthreads
    if total <= n:
        combos = itertools.product(seqs, repeat=nthreads)
    else:
        combos = (tuple(rng.choice(seqs) for _ in range(nthreads)) for _ in range(n))
    for i, c in enumerate(combos):
        out.append({"id": i + 1, "threads": [[dict(A[j]) for j in s] for s in c]})
        if len(out) >= n:
            break
    return out


def probe_for(fx, f):
    fi = fx[f]
    cn = fi["cache_name"]
    p = [call(f, 7), call(f, 8), call(f, 9), call(f, 7), call(f, 1), call(f, 2)]
    if fi["cfg"]["ttl"]:
        p += [{"op": "tick", "d": fi["cfg"]["ttl"]}, call(f, 8), call(f, 9), call(f, 1)]
    p += [{"op": "inv_with", "x": cn, "sel": ["7", "8", "1"]}, call(f, 7), call(f, 5), call(f, 6)]
    if fi["tags"] or fi["events"]:
        p += [{"op": "inv_name", "x": cn}, call(f, 5), call(f, 6), call(f, 7)]
    return p


def plan(pid, tier, seed, fx):
    """-> list of jobs (dicts for `vharness conc`)"""
    rng = random.Random(seed * 31 + int(pid[1:]))
    thorough = tier == "thorough"
    jobs = []
    if pid in ("C17", "C18"):
        fixtures = SYNC_FIX + ASYNC_FIX
        nprog = 200 if thorough else 30
        for f in fixtures:
            A = alphabet(fx, f, with_stats=(pid == "C17"))
            for pre in prefixes(fx, f):
                jobs.append({"fixtures": [f], "prefix": pre, "programs": programs(rng, A, 2, 2, nprog),
                             "strategy": {"kind": "dfs", "max_schedules": 200 if thorough else 30, "preempt": 3 if thorough else 2},
                             "probe": probe_for(fx, f) if pid == "C18" else [], "hang_ms": 20000})
            # same-key races, exhaustively over a small alphabet (both threads hit the same entries)
            cn = fx[f]["cache_name"]
            small = [call(f, 1), call(f, 2), {"op": "inv_with", "x": cn, "sel": ["1"]}]
            if fx[f]["isResult"]:
                small.append(call(f, 1, ok=False))
            if fx[f]["hasCif"]:
                small.append(call(f, 1, cif=False))
            if fx[f]["tags"] or fx[f]["events"]:
                small.append({"op": "inv_name", "x": cn})
            seqs1 = [[a] for a in small]
            seqs2 = seqs1 + [[a, b] for a in small for b in small]
            progs = []
            for s1 in seqs2:
                for s2 in (seqs2 if thorough else seqs1):
                    progs.append({"id": 5000 + len(progs), "threads": [[dict(o) for o in s1], [dict(o) for o in s2]]})
            for pre in prefixes(fx, f)[1:]:
                jobs.append({"fixtures": [f], "prefix": pre, "programs": progs,
                             "strategy": {"kind": "dfs", "max_schedules": 200 if thorough else 50, "preempt": 2},
                             "probe": probe_for(fx, f) if pid == "C18" else [], "hang_ms": 20000})
            if thorough:
                jobs.append({"fixtures": [f], "prefix": prefixes(fx, f)[1], "programs": programs(rng, A, 3, 2, 100),
                             "strategy": {"kind": "dfs", "max_schedules": 200, "preempt": 2},
                             "probe": probe_for(fx, f) if pid == "C18" else [], "hang_ms": 20000})
            jobs.append({"fixtures": [f], "prefix": prefixes(fx, f)[-1], "programs": programs(rng, A, 3 if thorough else 2, 3, 25 if thorough else 8),
                         "strategy": {"kind": "random", "max_schedules": 800 if thorough else 40, "seed": seed},
                         "probe": probe_for(fx, f) if pid == "C18" else [], "hang_ms": 20000})
        # several functions at once: group invalidations walk more than one cache (sync and async mixed),
        # calls on one function race with an invalidation that reaches it through another's tag / event
        for group in (["g_a", "g_ab", "g_dep"], ["g_ab", "g_ev", "g_self_async"], ["g_a", "g_self", "g_mem"]):
            A = []
            for f in group:
                A += [call(f, 1), call(f, 2)]
            tg = sorted({t for f in group for t in fx[f]["tags"]})
            ev = sorted({t for f in group for t in fx[f]["events"]})
            A += [{"op": "inv_tag", "x": t} for t in tg] + [{"op": "inv_event", "x": t} for t in ev]
            A += [{"op": "inv_dep", "x": "g_a"}, {"op": "inv_name", "x": fx[group[0]]["cache_name"]},
                  {"op": "inv_all_with", "sel": {fx[f]["cache_name"]: ["1"] for f in group}}]
            if pid == "C17":
                A.append({"op": "stats_get", "x": fx[group[1]]["cache_name"]})
            pre = [call(f, k) for f in group for k in (1, 2, 3)]
            probe = []
            if pid == "C18":
                for f in group:
                    probe += [call(f, 7), call(f, 8), call(f, 9), call(f, 1), call(f, 7)]
                probe += [{"op": "inv_tag", "x": tg[0]}] + [call(f, 7) for f in group]
            jobs.append({"fixtures": group, "prefix": pre, "programs": programs(rng, A, 2, 2, 200 if thorough else 40),
                         "strategy": {"kind": "dfs", "max_schedules": 150 if thorough else 30, "preempt": 2},
                         "probe": probe, "hang_ms": 20000})
            jobs.append({"fixtures": group, "prefix": pre, "programs": programs(rng, A, 3, 2, 60 if thorough else 6),
                         "strategy": {"kind": "random", "max_schedules": 500 if thorough else 30, "seed": seed},
                         "probe": probe, "hang_ms": 20000})
    elif pid == "C03":
        for f in ("s_plain", "a_plain", "s_yield", "a_yield", "s_lru_unb", "a_lru_unb", "a_lfu_unb"):
            A = [call(f, 1), call(f, 2)]
            for nt, ml, n in ((2, 2, 40), (3, 1, 8), (3, 2, 120 if thorough else 20), (2, 3, 100 if thorough else 0)):
                if n == 0:
                    continue
                jobs.append({"fixtures": [f], "prefix": [], "programs": programs(rng, A, nt, ml, n),
                             "strategy": {"kind": "dfs", "max_schedules": 1000 if thorough else 120, "preempt": 3 if thorough else 2},
                             "probe": [], "hang_ms": 20000})
    elif pid == "C15":
        for f in ("s_plain", "a_plain", "s_lru2", "a_lru2", "s_fifo3_ttl2", "a_fifo3_ttl2", "s_lfu2", "a_lfu2", "g_alias",
                  "g_alias_async", "s_res_lru2", "a_res_lru2", "s_lru_unb", "a_arc_unb", "s_tlru_unb", "a_yield"):
            A = [call(f, 1), call(f, 2), call(f, 3), {"op": "inv_with", "x": fx[f]["cache_name"], "sel": ["1", "2"]}]
            for pre in prefixes(fx, f)[:3]:
                jobs.append({"fixtures": [f], "prefix": pre, "programs": programs(rng, A, 3 if thorough else 2, 2, 120 if thorough else 20),
                             "strategy": {"kind": "dfs", "max_schedules": 300 if thorough else 40, "preempt": 2},
                             "probe": [{"op": "stats_get", "x": fx[f]["cache_name"]}], "hang_ms": 20000})
    return jobs


def cold_programs(fx, thorough):
    """Programs in which a function's FIRST call -- all its `Once` registrations (invalidation metadata,
    clear callback, conditional callback, statistics) -- races with registry-wide operations of another
    thread. A cold function is only ever called by one thread (std `Once` blocks outside the scheduler)."""
    out = []
    for warm, cold, cold2 in (("g_a", "g_ab", "g_ev"), ("g_dep", "g_ev", "g_ab"), ("s_lru2", "a_lru2", "g_alias"),
                              ("a_lru2", "g_self", "g_self_async")):
        wn, cn = fx[warm]["cache_name"], fx[cold]["cache_name"]
        t1s = [[call(cold, 1)], [call(cold, 1), call(cold, 2)]]
        other = [{"op": "inv_all_with", "sel": {wn: ["1"], cn: ["1"]}}, {"op": "inv_with", "x": wn, "sel": ["1"]},
                 {"op": "inv_with", "x": cn, "sel": ["1"]}, {"op": "inv_name", "x": cn}, {"op": "inv_name", "x": wn},
                 {"op": "inv_dep", "x": "g_a"}, {"op": "stats_get", "x": cn}, {"op": "stats_get", "x": wn},
                 {"op": "stats_reset", "x": cn}, call(warm, 1), call(warm, 3), call(cold2, 1)]
        for t in sorted(set(fx[warm]["tags"] + fx[cold]["tags"]))[:2]:
            other.append({"op": "inv_tag", "x": t})
        for t in sorted(set(fx[warm]["events"] + fx[cold]["events"]))[:2]:
            other.append({"op": "inv_event", "x": t})
        t2s = [[o] for o in other]
        if thorough:
            t2s += [[a, b] for a in other[:6] for b in other[:6]]
        else:
            t2s += [[other[0], other[0]], [other[0], call(cold2, 1)], [call(cold2, 1), other[0]], [other[3], other[0]]]
        for t1 in (t1s if thorough else t1s[:1]):
            for t2 in t2s:
                out.append({"fixtures": [warm, cold, cold2], "nowarm": [cold, cold2],
                            "prefix": [call(warm, 1), call(warm, 2)],
                            "program": {"id": 9000 + len(out), "threads": [[dict(o) for o in t1], [dict(o) for o in t2]]}})
    return out


def run_cold(pid, tier, seed, wd, all_tr, jobs_by_tag):
    """Cold-start exploration: one fresh process per schedule, the DFS stack is carried by this driver."""
    fx = load_fixtures()
    thorough = tier == "thorough"
    progs = cold_programs(fx, thorough)
    max_s = 1000 if thorough else 300
    tot = {"programs": len(progs), "schedules": 0, "deadlocks": 0}
    cdir = os.path.join(wd, "cold")
    os.makedirs(cdir, exist_ok=True)

    def one(ip):
        i, cp = ip
        tag = "cold%d" % i
        base = {"fixtures": cp["fixtures"], "nowarm": cp["nowarm"], "prefix": cp["prefix"], "programs": [cp["program"]],
                "probe": [], "hang_ms": 20000, "tag": tag, "max_log": 0}
        stack, n, texts, bad, retries = [], 0, [], None, 0
        while n < max_s:
            job = dict(base, strategy={"kind": "dfs1", "stack": stack, "preempt": 3 if thorough else 2})
            jp = os.path.join(cdir, "job_%d.json" % i)
            tp = os.path.join(cdir, "tr_%d.ndjson" % i)
            json.dump(job, open(jp, "w"))
            r = harness_json(["conc", "--job", jp, "--out", tp], timeout=300)
            if r.get("retry"):
                retries += 1
                if retries > 50:
                    raise ToolError("cold-start schedule keeps straddling wall-clock seconds")
                continue
            n += 1
            texts.append(open(tp).read())
            if r["verdict"] != "ok":
                bad = r["verdict"]
                break
            if r.get("next_stack") is None:
                break
            stack = r["next_stack"]
        return tag, base, n, "".join(texts), bad

    import concurrent.futures
    with concurrent.futures.ThreadPoolExecutor(max_workers=12) as ex:
        res = list(ex.map(one, enumerate(progs)))
    with open(all_tr, "a") as allf:
        for tag, base, n, txt, bad in res:
            tot["schedules"] += n
            tot["deadlocks"] += 1 if bad else 0
            jobs_by_tag[tag] = base
            allf.write(txt)
    return tot


def run_conc_check(pid, tier, seed, wd):
    t0 = time.time()
    fx = load_fixtures()
    jobs = plan(pid, tier, seed, fx)
    violations, drift = [], []
    tot = {"schedules": 0, "finished": 0, "logged": 0, "programs": 0, "jobs": len(jobs)}
    all_tr = os.path.join(wd, "conc_all.ndjson")
    open(all_tr, "w").close()
    os.makedirs(REPLAYS, exist_ok=True)
    sample_job = None

    thorough = tier == "thorough"

    def run_job(ij):
        i, job = ij
        job["tag"] = "job%d" % i
        job.setdefault("max_log", 40 if thorough else 8)
        jp = os.path.join(wd, "conc_job_%d.json" % i)
        json.dump(job, open(jp, "w"))
        tp = os.path.join(wd, "conc_%d.ndjson" % i)
        r = harness_json(["conc", "--job", jp, "--out", tp], timeout=3000)
        return i, job, jp, tp, r

    import concurrent.futures
    with concurrent.futures.ThreadPoolExecutor(max_workers=12) as ex:
        results = list(ex.map(run_job, enumerate(jobs)))
    deadlock_jobs = []
    jobs_by_fixture = {}
    with open(all_tr, "a") as allf:
        for i, job, jp, tp, r in results:
            for k in ("schedules", "finished", "logged", "programs"):
                tot[k] += r.get(k, 0)
            if r["verdict"] != "ok":
                deadlock_jobs.append((i, jp, tp, r["verdict"]))
            txt = open(tp).read()
            allf.write(txt)
            jobs_by_fixture[job["tag"]] = job
            if sample_job is None:
                sample_job = {"fixtures": job["fixtures"], "prefix": job["prefix"], "program": job["programs"][0],
                              "strategy": job["strategy"]}
    log("[%s] real code under the scheduler: %d programs, %d schedules explored (%d completed, %d distinct outcomes logged)" %
        (pid, tot["programs"], tot["schedules"], tot["finished"], tot["logged"]))
    cold = {}
    if pid in ("C17", "C18"):
        cold = run_cold(pid, tier, seed, wd, all_tr, jobs_by_fixture)
        log("[%s] cold start (first calls and their registrations inside the concurrent section, one process per "
            "schedule): %d programs, %d schedules" % (pid, cold["programs"], cold["schedules"]))
        tot["schedules"] += cold["schedules"]
        tot["programs"] += cold["programs"]
        tot["cold"] = cold
    tcfg = os.path.join(wd, "Trace.cfg")
    write_cfg(tcfg, "TraceSpec", {"Quirks": set()}, invariants=["Done"])
    tv = validate_file("Trace", tcfg, all_tr, pid + "_conc", nshards=14, boundary='"ev":"quiesce"', timeout=3000)
    if tv["errors"]:
        raise ToolError("concurrent trace validation incomplete: " + "; ".join(tv["errors"][:3]))
    # C18 also says "each call still returns": a real deadlock / hang violates it as well
    ids = {pid} | ({"C17"} if pid == "C18" else set())
    mine = sorted(set(l for (i, l) in tv["fails"] if i in ids))
    lines = None
    for ln in mine[:8]:
        if lines is None:
            lines = open(all_tr).readlines()
        # the enclosing section: from its quiesce/deadlock line to the next one
        s = ln - 1
        while s > 0 and not any(m in lines[s] for m in ('"ev":"quiesce"', '"ev":"deadlock"', '"ev":"hang"')):
            s -= 1
        e = s + 1
        while e < len(lines) and not any(m in lines[e] for m in ('"ev":"quiesce"', '"ev":"deadlock"', '"ev":"hang"')):
            e += 1
        tp = os.path.join(REPLAYS, "%s_conc_%d_%d.ndjson" % (pid, seed, ln))
        with open(tp, "w") as f:
            f.writelines(lines[s:e])
        head = json.loads(lines[s])
        job = jobs_by_fixture.get(head.get("job"))
        if job is not None:
            j2 = dict(job, programs=[pp for pp in job["programs"] if pp["id"] == head.get("prog")],
                      strategy={"kind": "replay", "choices": head.get("choices", [])})
            _rp.sidecar(tp, "conc", {"job": j2})
        what = ("real deadlock: " + json.dumps(head.get("blocked"))) if head["ev"] in ("deadlock", "hang") else \
               ("monitor of %s false at record %d of the section (fixtures %s)" % (pid, ln - s, list(head.get("cfgs", {}).keys())))
        violations.append((what + "; schedule choices " + json.dumps(head.get("choices"))[:200], tp))
    for (i, l) in tv["drifts"][:10]:
        drift.append("SPEC-DRIFT concurrent trace line=%d (%s)" % (l, i))
    bogus = [l for (i, l) in tv["fails"] if i == "bogus-deadlock-report"]
    if bogus:
        raise ToolError("scheduler reported a deadlock that TLC does not accept as genuine (lines %s)" % bogus[:3])
    log("[%s] TLC judged %d records of concurrent sections and probes: failures of %s: %d" %
        (pid, tv["lines"], pid, len(mine)))
    conf = {}
    if pid in ("C17", "C18"):
        conf = lock_protocol_conformance(pid, tier, wd, all_tr, drift)
    with open(all_tr) as f:
        first = f.readline()
    s0 = json.loads(first) if first.strip() else {}
    for k in ("pmetas", "metas"):
        s0.pop(k, None)
    cov = {"states": tot["logged"], "transitions": tot["schedules"],
           "traces_validated_against_impl": tot["logged"],
           "schedules_explored": tot["schedules"], "programs": tot["programs"],
           "samples": [{"kind": "job", "job": sample_job}, {"kind": "quiesce record", "record": s0}],
           "exhaustive": False,
           "explanation": "schedules of the real code enumerated depth-first (preemption bound 2) and at random under a "
                          "cooperative scheduler that makes every lock acquisition a scheduling point; states = distinct "
                          "outcomes logged and judged by TLC, transitions = schedules executed",
           "details": {"totals": tot, "records_validated": tv["lines"], "lock_protocol": conf}, "spec_drift": drift}
    if conf:
        cov["states"] += conf["mc"]["states"]
        cov["transitions"] += conf["mc"]["transitions"]
    return violations, drift, cov, time.time() - t0


ELIGIBLE_POL = ("fifo", "lru", "lfu", "arc", "tlru")


def lock_protocol_conformance(pid, tier, wd, all_tr, drift):
    """(1) TLC proves deadlock freedom / quiescent consistency / value correctness on Conc.tla for every
    2-thread program of the bound; (2) every recorded schedule of an eligible fixture is replayed grant by
    grant in Conc.tla (ConcTrace.tla): same lock requested, same final state, same results."""
    thorough = tier == "thorough"
    mc_cfg = os.path.join(wd, "ConcMC.cfg")
    consts = {"Quirks": set(), "CQuirks": set(), "Flavs": {"sync", "async"},
              "Pols": {"lru", "lfu"} if thorough else {"lru"}, "Limits": {1, 2} if thorough else {1},
              "Ttls": {0, 2} if thorough else {2}, "Maxmems": {0}, "MaxOps": 2, "NThreads": 2}
    write_cfg(mc_cfg, "Spec", consts, invariants=["NoDeadlock", "QuiescentConsistent", "ValuesCorrect"])
    r = tlc_mc("ConcMC", mc_cfg, pid + "_concmc", workers=12, timeout=3000)
    if not r["ok"]:
        raise ToolError("TLC did not prove NoDeadlock / QuiescentConsistent / ValuesCorrect on Conc.tla:\n" +
                        ("\n".join(r["errors"][:4]) or r["out"][-2000:]))
    log("[%s] TLC proved NoDeadlock, QuiescentConsistent, ValuesCorrect on Conc.tla: %d states / %d transitions (%.0fs)" %
        (pid, r["distinct"], r["generated"], r["wall_s"]))
    # memory-limited caches (insert_with_memory: size check, eviction loop and limit step nested in the queue lock)
    cm = dict(consts, Limits={0, 2} if thorough else {0}, Ttls={0}, Maxmems={3}, Pols={"lru", "lfu"} if thorough else {"lru"})
    mcfg = os.path.join(wd, "ConcMC_mem.cfg")
    write_cfg(mcfg, "Spec", cm, invariants=["NoDeadlock", "QuiescentConsistent", "ValuesCorrect"])
    rm = tlc_mc("ConcMC", mcfg, pid + "_concmc_mem", workers=12, timeout=3000)
    if not rm["ok"]:
        raise ToolError("TLC did not prove the Conc.tla invariants for memory-limited caches:\n" +
                        ("\n".join(rm["errors"][:4]) or rm["out"][-2000:]))
    r["distinct"] += rm["distinct"]
    r["generated"] += rm["generated"]
    log("[%s] ... and for memory-limited caches: %d states" % (pid, rm["distinct"]))
    if thorough:
        # three threads, one operation each
        c3 = dict(consts, NThreads=3, MaxOps=1, Pols={"lru", "lfu"}, Limits={1, 2}, Ttls={0, 2}, Maxmems={0, 3})
        c3cfg = os.path.join(wd, "ConcMC_3t.cfg")
        write_cfg(c3cfg, "Spec", c3, invariants=["NoDeadlock", "QuiescentConsistent", "ValuesCorrect"])
        r3 = tlc_mc("ConcMC", c3cfg, pid + "_concmc_3t", workers=12, timeout=5000)
        if not r3["ok"]:
            raise ToolError("TLC did not prove the Conc.tla invariants for three threads:\n" +
                            ("\n".join(r3["errors"][:4]) or r3["out"][-2000:]))
        r["distinct"] += r3["distinct"]
        r["generated"] += r3["generated"]
        log("[%s] ... and for three threads x one operation: %d states" % (pid, r3["distinct"]))
    # non-vacuity: the as-found protocols must be refuted
    refuted = []
    if thorough or pid == "C17":
        for q, inv in (("cond_callback_lock_inversion", "NoDeadlock"), ("clear_not_atomic", "QuiescentConsistent"),
                       ("async_expiry_not_atomic", "QuiescentConsistent")):
            c2 = dict(consts, CQuirks={q}, Ttls={2}, Pols={"lru"}, Limits={1})
            cfg2 = os.path.join(wd, "ConcMC_%s.cfg" % q)
            write_cfg(cfg2, "Spec", c2, invariants=[inv])
            r2 = tlc_mc("ConcMC", cfg2, pid + "_concmc_" + q, workers=12, timeout=1200)
            if r2["ok"] or not any(inv in e for e in r2["errors"]):
                raise ToolError("self-test: Conc.tla with quirk %s does not violate %s" % (q, inv))
            refuted.append(q)
    # registry lock protocol (Reg.tla): parking_lot semantics with writer preference; first calls (their
    # registrations) race with group / conditional invalidations and statistics queries
    rcfg = os.path.join(wd, "RegMC.cfg")
    rconst = {"Caches": {"c1", "c2"}, "NThreads": 3 if thorough else 2, "MaxOps": 2, "Cold": {"c2"},
              "MetaCaches": {"c1", "c2"}, "RQuirks": set()}
    if thorough:
        rconst["MaxOps"] = 1
    write_cfg(rcfg, "Spec", rconst, invariants=["NoDeadlock", "QuiescentClean", "FlatRegistry"])
    rr = tlc_mc("RegMC", rcfg, pid + "_regmc", workers=12, timeout=3000)
    if not rr["ok"]:
        raise ToolError("TLC did not prove NoDeadlock / QuiescentClean / FlatRegistry on Reg.tla:\n" +
                        ("\n".join(rr["errors"][:4]) or rr["out"][-2000:]))
    if thorough:
        rc2 = dict(rconst, NThreads=2, MaxOps=2, Cold={"c1", "c2"}, MetaCaches={"c1"})
        write_cfg(rcfg, "Spec", rc2, invariants=["NoDeadlock", "QuiescentClean", "FlatRegistry"])
        rr2 = tlc_mc("RegMC", rcfg, pid + "_regmc2", workers=12, timeout=3000)
        if not rr2["ok"]:
            raise ToolError("TLC did not prove the Reg.tla invariants (two cold caches):\n" +
                            ("\n".join(rr2["errors"][:4]) or rr2["out"][-2000:]))
        rr["distinct"] += rr2["distinct"]
        rr["generated"] += rr2["generated"]
    qcfg = os.path.join(wd, "RegMC_q.cfg")
    write_cfg(qcfg, "Spec", dict(rconst, NThreads=2, MaxOps=2, RQuirks={"allwith_recursive_read"}), invariants=["NoDeadlock"])
    rq = tlc_mc("RegMC", qcfg, pid + "_regmc_q", workers=12, timeout=1200)
    if rq["ok"] or not any("NoDeadlock" in e for e in rq["errors"]):
        raise ToolError("self-test: Reg.tla with a recursive read in invalidate_all_with does not violate NoDeadlock")
    refuted.append("allwith_recursive_read")
    log("[%s] TLC proved NoDeadlock, QuiescentClean, FlatRegistry on Reg.tla (registry locks, writer preference): "
        "%d states; a recursive read is refuted" % (pid, rr["distinct"]))
    r["distinct"] += rr["distinct"]
    r["generated"] += rr["generated"]
    # ... and the recorded schedules follow that protocol: per thread, the registry locks acquired by the
    # real run are exactly the ones Reg.tla prescribes for its program, each taken holding no other one
    rsel = os.path.join(wd, "reg_conf.ndjson")
    nreg = 0
    with open(all_tr) as f, open(rsel, "w") as g:
        for line in f:
            if '"ev":"quiesce"' in line and '"reg.' in line:
                g.write(line)
                nreg += 1
    rtcfg = os.path.join(wd, "RegTrace.cfg")
    write_cfg(rtcfg, "RSpec", {}, invariants=["Done"])
    rtv = validate_file("RegTrace", rtcfg, rsel, pid + "_regtrace", nshards=14, boundary=None, timeout=3000)
    if rtv["errors"]:
        raise ToolError("registry-protocol conformance incomplete: " + "; ".join(rtv["errors"][:3]))
    nrd = len(rtv["drifts"])
    if nrd:
        drift.append("SPEC-DRIFT %d of %d recorded schedules acquire registry locks differently from Reg.tla (first line %d)"
                     % (nrd, nreg, rtv["drifts"][0][1]))
    log("[%s] registry-protocol conformance: %d recorded schedules checked against Reg.tla, %d deviate" % (pid, nreg, nrd))
    # conformance of recorded schedules
    sel = os.path.join(wd, "conc_conf.ndjson")
    n = 0
    nfine = 0
    with open(all_tr) as f, open(sel, "w") as g:
        for line in f:
            if '"ev":"quiesce"' not in line:
                continue
            rec = json.loads(line)
            names = list(rec["cfgs"].keys())
            if len(names) != 1:
                continue
            cfgd, meta = rec["cfgs"][names[0]], rec["metas"][names[0]]
            if cfgd["policy"] not in ELIGIBLE_POL or meta["hasInv"] or rec.get("panic") or "yield" in names[0]:
                continue
            # DashMap shard locks are scheduling points of the real run but Conc.tla treats DashMap
            # operations as part of the surrounding lock-free code: replay only schedules in which no
            # thread was preempted at a shard lock, with the shard grants removed
            gr = rec["grants"]
            fine = any(gr[i][1] == "shard" and gr[i - 1][0] != gr[i][0] for i in range(1, len(gr)))
            if fine:
                nfine += 1
                continue
            rec["grants"] = [x for x in gr if x[1] != "shard"]
            g.write(json.dumps(rec) + "\n")
            n += 1
    ccfg = os.path.join(wd, "ConcTrace.cfg")
    write_cfg(ccfg, "CSpec", {"Quirks": set(), "CQuirks": set()}, invariants=["EndOK", "Done"])
    tv = validate_file("ConcTrace", ccfg, sel, pid + "_conctrace", nshards=14, boundary=None, timeout=3000)
    if tv["errors"]:
        raise ToolError("lock-protocol conformance incomplete: " + "; ".join(tv["errors"][:3]))
    nd = len(tv["drifts"])
    if nd:
        kinds = {}
        for (i, l) in tv["drifts"]:
            kinds[i] = kinds.get(i, 0) + 1
        drift.append("SPEC-DRIFT %d of %d recorded schedules do not replay in Conc.tla (%s)" % (nd, n, kinds))
    log("[%s] lock-protocol conformance: %d recorded schedules replayed grant by grant in Conc.tla, %d deviate" % (pid, n, nd))
    return {"mc": {"states": r["distinct"], "transitions": r["generated"], "constants": {k: sorted(v) if isinstance(v, set) else v for k, v in consts.items()},
                   "quirks_refuted": refuted},
            "schedules_replayed": n, "deviating": nd, "shard_preempted_schedules_not_replayed": nfine,
            "registry_protocol": {"states": rr["distinct"], "constants": {k: sorted(v) if isinstance(v, set) else v for k, v in rconst.items()},
                                  "schedules_checked": nreg, "deviating": nrd}}
