"""Engine-level checks (core API: get / insert / insert_with_memory / clock): properties
C01 (engine part), C04, C05, C06, C07, C08, C16.

Three uses of TLC per check (DESIGN.md 3):
  1. model checking of EngineMC on the property's bounded configuration set (spec level);
  2. edge conformance: the harness explores the REAL engines' bounded state graph exhaustively,
     TLC checks every transition against the specification's action relation + history-free monitors;
  3. trace validation: long random histories of the real engines, every monitor (with ghosts
     recomputed from the events) evaluated by TLC on every step.
"""
import json, os, random, time
from vlib import *
import replay as _rp

ALL_POL = {"fifo", "lru", "lfu", "arc", "random", "tlru"}
ALL_FLAV = {"sync", "thread", "async"}

# per property: which slice of the configuration space matters, which spec properties TLC proves
ENGINE = {
    "C01": dict(pols=ALL_POL, limits={0, 2}, ttls={0, 2}, maxmems={0, 3}, weights={"none"},
                props=["M_C01"], mon="C01"),
    "C04": dict(pols=ALL_POL, limits={1, 2}, ttls={0, 2}, maxmems={0, 3}, weights={"none", "0.3", "5000"},
                props=["M_C04"], mon="C04"),
    "C05": dict(pols=ALL_POL, limits={0, 2}, ttls={0, 2}, maxmems={3}, weights={"none"},
                props=["M_C05"], mon="C05"),
    "C06": dict(pols=ALL_POL, limits={0, 2}, ttls={1, 2}, maxmems={0, 3}, weights={"none"},
                props=["M_C06"], mon="C06"),
    "C07": dict(pols={"fifo", "lru"}, limits={0, 1, 2}, ttls={0, 2}, maxmems={0, 3}, weights={"none"},
                props=["M_C07"], mon="C07"),
    "C08": dict(pols={"lfu", "arc", "tlru"}, limits={0, 2}, ttls={0, 3}, maxmems={0, 3},
                weights={"none", "0.3", "1.5"}, props=["M_C08"], mon="C08"),
    "C16": dict(pols=ALL_POL, limits={1, 2}, ttls={0, 1}, maxmems={0, 3}, weights={"none", "3", "5000"},
                props=["M_C16"], mon="C16"),
}

# as-found defects as specification switches: (quirk, constants narrowing the model to where it shows)
QUIRK_REFUTES = {
    "C01": [("async_keep_old", {"Flavs": {"async"}, "Pols": {"fifo"}})],
    "C04": [("async_tlru_overflow_unevictable", {"Flavs": {"async"}, "Pols": {"tlru"}, "Weights": {"5000"},
                                                 "Limits": {1}, "Ttls": {0}, "Maxmems": {0}})],
    "C07": [("async_recency_needs_limit", {"Flavs": {"async"}, "Pols": {"lru"}})],
    "C08": [("async_rank_reversed", {"Flavs": {"async"}, "Pols": {"arc"}})],
    "C16": [("tl_reborrow_panic", {"Flavs": {"thread"}, "Pols": {"lfu"}})],
}

THOROUGH_EXTRA = dict(limits={0, 1, 2, 3}, ttls={0, 1, 2, 3}, maxmems={0, 3, 5},
                      weights={"none", "0.1", "0.3", "1", "1.5", "3"})


def cfg_list(sl):
    out = []
    for f in sorted(sl.get("flavs", ALL_FLAV)):
        for p in sorted(sl["pols"]):
            for l in sorted(sl["limits"]):
                for t in sorted(sl["ttls"]):
                    for m in sorted(sl["maxmems"]):
                        ws = sorted(sl["weights"]) if p == "tlru" else ["none"]
                        for w in ws:
                            out.append(dict(flavour=f, policy=p, limit=l, ttl=t, maxmem=m, w=w))
    return out


def trace_to_script(trace_lines):
    """Recorded trace (reset line first) -> script for `vharness engine --script`."""
    first = json.loads(trace_lines[0])
    ops = []
    for l in trace_lines[1:]:
        e = json.loads(l)
        if e["ev"] == "get":
            ops.append({"op": "get", "k": e["k"]})
        elif e["ev"] == "ins":
            ops.append({"op": "ins", "k": e["k"], "size": e["size"], "mem": e["mem"]})
        elif e["ev"] == "tick":
            ops.append({"op": "tick", "d": e["d"]})
    return {"id": first.get("trace", 0), "cfg": first["cfgs"]["c"], "ops": ops}


def edge_path_script(edge_file, line_no):
    """Reconstruct, from the exploration's parent pointers, the operation sequence that leads from
    the empty cache to the pre-state of the edge on line_no, followed by that edge's operation."""
    with open(edge_file) as f:
        lines = f.readlines()
    cfgs = json.loads(lines[0])["cfgs"]
    target = json.loads(lines[line_no - 1])
    c = target["c"]
    disc = {}
    for l in lines[1:line_no]:
        e = json.loads(l)
        if e["c"] == c and e["w"] >= 0 and e["w"] not in disc:
            disc[e["w"]] = e

    def op_of(e):
        ev = e["e"]
        if ev["ev"] == "get":
            return {"op": "get", "k": ev["k"]}
        if ev["ev"] == "ins":
            return {"op": "ins", "k": ev["k"], "size": ev["size"], "mem": ev["mem"]}
        return {"op": "tick", "d": ev["d"]}

    ops = [op_of(target)]
    u = target["u"]
    guard = 0
    while u != 0 and guard < 10000:
        e = disc[u]
        ops.append(op_of(e))
        u = e["u"]
        guard += 1
    ops.reverse()
    return {"id": line_no, "cfg": cfgs[c - 1], "ops": ops}


def run_engine_check(pid, tier, seed, wd):
    spec = dict(ENGINE[pid])
    thorough = tier == "thorough"
    if thorough:
        # wider configuration slice: every limit 1..3 (and none), ttl 1..3, a second memory bound, all weights
        spec["limits"] = set(spec["limits"]) | {1, 2, 3, 4}
        spec["ttls"] = set(spec["ttls"]) | ({1, 3} if spec["ttls"] != {0} else set())
        spec["maxmems"] = set(spec["maxmems"]) | {5}
        if "tlru" in spec["pols"]:
            spec["weights"] = set(spec["weights"]) | set(THOROUGH_EXTRA["weights"])
    mon = spec["mon"]
    t_start = time.time()
    info = {}
    violations = []   # (description, replay_path)
    drift_notes = []

    # ------------------------------------------------------------------ 1. model checking
    mc_cfg = os.path.join(wd, "EngineMC.cfg")
    consts = {"Quirks": set(), "Keys": {"k1", "k2", "k3"}, "Flavs": set(ALL_FLAV),
              "Pols": set(spec["pols"]), "Limits": set(ENGINE[pid]["limits"]),
              "Ttls": set(ENGINE[pid]["ttls"]), "Maxmems": set(ENGINE[pid]["maxmems"]),
              "Weights": set(ENGINE[pid]["weights"]), "SizesMem": {1, 2, 4},
              "MaxVer": 5 if thorough else 3, "MaxHits": 2}
    if thorough:
        # the model checker gets the wider slice too, minus the largest constants (state explosion)
        consts["Limits"] = set(spec["limits"]) - {3, 4}
        consts["Ttls"] = set(spec["ttls"]) - {3}
        consts["Weights"] = set(spec["weights"]) if "tlru" in spec["pols"] else {"none"}
    write_cfg(mc_cfg, "Spec", consts, invariants=["StateOK", "GhostAgrees", "GhostFromState"],
              properties=spec["props"] + ["StatsExact"], constraint="Bounded", view="View")
    mc = tlc_mc("EngineMC", mc_cfg, pid + "_mc", workers=12, timeout=3000 if thorough else 600)
    if not mc["ok"]:
        raise ToolError("TLC did not prove %s on the specification (Quirks = {}):\n%s" %
                        (spec["props"], "\n".join(mc["errors"][:5]) or mc["out"][-3000:]))
    info["mc"] = {"states": mc["distinct"], "transitions": mc["generated"], "wall_s": mc["wall_s"],
                  "constants": {k: sorted(v) if isinstance(v, set) else v for k, v in consts.items()},
                  "proved": ["StateOK", "GhostAgrees", "GhostFromState"] + spec["props"] + ["StatsExact"]}
    log("[%s] TLC proved %s on %d states / %d transitions (%.0fs)" %
        (pid, spec["props"], mc["distinct"], mc["generated"], mc["wall_s"]))

    # non-vacuity: with the as-found behaviour switched on (quirk), TLC must REFUTE this property on the
    # same specification -- otherwise the proof above would say nothing about it
    for quirk, qconst in QUIRK_REFUTES.get(pid, []):
        qcfg = os.path.join(wd, "EngineMC_%s.cfg" % quirk)
        qc = dict(consts)
        qc.update(qconst)
        qc["Quirks"] = {quirk}
        write_cfg(qcfg, "Spec", qc, invariants=["StateOK"], properties=spec["props"], constraint="Bounded",
                  view="View")
        qr = tlc_mc("EngineMC", qcfg, pid + "_mcq_" + quirk, workers=6, timeout=600)
        refuted = (not qr["ok"]) and any("violated" in e or "is violated" in e for e in qr["errors"] + qr["out"].splitlines()[-60:])
        if not refuted:
            raise ToolError("quirk %s: TLC did not refute %s on the specification:\n%s" %
                            (quirk, spec["props"], qr["out"][-1500:]))
        info.setdefault("quirk_refutations", []).append(quirk)
        log("[%s] non-vacuity: with quirk %s (the as-found behaviour) TLC refutes %s on the specification" %
            (pid, quirk, spec["props"]))

    if pid == "C16":
        # design level: RefCell discipline of the thread-local engine (TLBorrow.tla): the repaired nesting
        # cannot panic, the as-found nesting does (non-vacuity)
        for asfound, expect_ok in ((False, True), (True, False)):
            bcfg = os.path.join(wd, "TLBorrow_%s.cfg" % asfound)
            write_cfg(bcfg, "Spec", {"AsFound": asfound}, invariants=["NoPanic", "AllReleased"])
            br = tlc_mc("TLBorrow", bcfg, "C16_tlborrow_%s" % asfound, workers=2, timeout=300)
            if br["ok"] != expect_ok:
                raise ToolError("TLBorrow.tla: AsFound=%s gave ok=%s" % (asfound, br["ok"]))
        info["tlborrow"] = "NoPanic proved for the repaired borrow nesting, refuted for the as-found one"
        log("[C16] TLBorrow.tla: no re-borrow panic in the repaired nesting; the as-found nesting is refuted")

    # ------------------------------------------------------------------ 2. edge conformance
    cfgs_a = [c for c in cfg_list(spec) if c["ttl"] == 0]
    cfgs_b = [c for c in cfg_list(spec) if c["ttl"] != 0]
    cfgs = cfgs_a + cfgs_b
    keys = ["k1", "k2", "k3"]
    if thorough:
        ba = {"keys": keys, "sizes": [1, 2, 3, 4], "max_ver": 5, "max_hits": 2, "seeds": 6}
        bb = {"keys": keys, "sizes": [1, 2, 3, 4], "max_ver": 4, "max_hits": 2, "seeds": 6}
    else:
        # sizes around the memory bound 3: below, exactly at it (a value that fits only alone), above
        ba = {"keys": keys, "sizes": [1, 2, 3, 4], "max_ver": 3, "max_hits": 1, "seeds": 4}
        bb = {"keys": keys, "sizes": [2, 3, 4], "max_ver": 3, "max_hits": 1, "seeds": 4}
    if thorough:
        # keep the exhaustive part within a budget of about 12 M transitions: cap the states explored per
        # configuration (a truncated configuration is reported as such, never silently)
        per_cfg = max(3000, 1200000 // max(1, len(cfgs)))
        ba["max_states"] = per_cfg
        bb["max_states"] = per_cfg
        # ... and the transitions logged per configuration (memory-limited configurations have many more
        # operations per state): about 20 M transitions in all
        ba["max_edges"] = bb["max_edges"] = max(8000, 20000000 // max(1, len(cfgs)))
    job = {"groups": [{"cfgs": cfgs_a, "bounds": ba}, {"cfgs": cfgs_b, "bounds": bb}]}
    info["explore_bounds"] = {"ttl=0": ba, "ttl>0": bb}
    # extreme frequency_weight: hits^w overflows in f64 from two hits on, so these configurations are
    # explored with two hits per entry also in the quick tier
    cfgs_x = [c for c in cfgs if c["w"] == "5000"]
    if cfgs_x and not thorough:
        for g in job["groups"]:
            g["cfgs"] = [c for c in g["cfgs"] if c["w"] != "5000"]
        bx = {"keys": keys, "sizes": [2, 3, 4], "max_ver": 3, "max_hits": 2, "seeds": 2}
        job["groups"].append({"cfgs": cfgs_x, "bounds": bx})
        info["explore_bounds"]["w=5000"] = bx
    job_path = os.path.join(wd, "explore_job.json")
    json.dump(job, open(job_path, "w"))
    edges = os.path.join(wd, "edges.ndjson")
    ex = harness_json(["explore", "--job", job_path, "--out", edges], timeout=3000)
    ecfg = os.path.join(wd, "Edges.cfg")
    write_cfg(ecfg, "EdgeSpec", {"Quirks": set()}, invariants=["Done"])
    ev = validate_file("Edges", ecfg, edges, pid + "_edges", nshards=14, header_lines=1, boundary=None,
                       timeout=3000)
    if ev["errors"]:
        raise ToolError("edge validation incomplete: " + "; ".join(ev["errors"][:3]))
    info["edges"] = {"impl_states": ex["states"], "impl_transitions": ex["edges"], "cfgs": len(cfgs),
                     "truncated_cfgs": ex.get("truncated_cfgs", 0),
                     "validated_lines": ev["lines"], "drift": len(ev["drifts"]),
                     "monitor_failures": len([f for f in ev["fails"] if f[0] == mon])}
    log("[%s] explored the real engines: %d states, %d transitions over %d configurations; "
        "TLC accepted %d, drift %d, monitor failures %d" %
        (pid, ex["states"], ex["edges"], len(cfgs), ev["lines"] - len(set(l for _, l in ev["drifts"])),
         len(ev["drifts"]), info["edges"]["monitor_failures"]))

    # suspects: edges failing this property's monitor directly, and drifting edges (attribution by
    # replaying the real path with full logging and every monitor)
    tcfg = os.path.join(wd, "Trace.cfg")
    write_cfg(tcfg, "TraceSpec", {"Quirks": set()}, invariants=["Done"])
    direct = set(l for (i, l) in ev["fails"] if i == mon)
    drifting = sorted(set(l for (_, l) in ev["drifts"]))
    # prioritise: direct monitor failures, then drifting stores, then other drifting steps; spread
    # over the file so that many configurations are represented
    with open(edges) as f:
        elines = f.readlines()
    def is_ins(ln):
        return '"ev":"ins"' in elines[ln - 1]
    def spread(xs, n):
        if len(xs) <= n:
            return xs
        step = len(xs) / float(n)
        return [xs[int(i * step)] for i in range(n)]
    suspects = sorted(direct)[:30] + spread([l for l in drifting if is_ins(l) and l not in direct], 30) \
        + spread([l for l in drifting if not is_ins(l) and l not in direct], 30)
    checked = 0
    if suspects:
        sp = os.path.join(wd, "suspects.script.jsonl")
        scripts = []
        with open(sp, "w") as f:
            for ln in suspects:
                script = edge_path_script(edges, ln)
                # probe suffix: latent damage (stale queue, wrong recency) must surface as a wrong
                # victim / bound violation inside the same trace
                mem = script["cfg"]["maxmem"] != 0
                for i in range(1, 5):
                    script["ops"].append({"op": "ins", "k": "p%d" % i, "size": 1, "mem": mem})
                for k in ("k1", "k2", "k3", "p1"):
                    script["ops"].append({"op": "get", "k": k})
                # ... and stale birth stamps as an entry served after its time
                if script["cfg"]["ttl"]:
                    for k in ("k1", "k2", "k3"):
                        script["ops"].append({"op": "ins", "k": k, "size": 1, "mem": mem})
                    for i in range(script["cfg"]["ttl"]):
                        for k in ("k1", "k2", "k3"):
                            script["ops"].append({"op": "get", "k": k})
                        script["ops"].append({"op": "tick", "d": 1})
                    for k in ("k1", "k2", "k3", "p1", "p2"):
                        script["ops"].append({"op": "get", "k": k})
                scripts.append(script)
                f.write(json.dumps(script) + "\n")
        os.makedirs(REPLAYS, exist_ok=True)
        tp_all = os.path.join(wd, "suspects.ndjson")
        harness(["engine", "--script", sp, "--out", tp_all])
        r = validate_file("Trace", tcfg, tp_all, pid + "_sus", nshards=8, timeout=1200)
        if r["errors"]:
            raise ToolError("suspect validation incomplete: " + "; ".join(r["errors"][:3]))
        checked = len(suspects)
        # map failing lines back to their trace (the reset line carries the edge line as trace id)
        with open(tp_all) as f:
            tl = f.readlines()
        def trace_id_of(line_no):
            i = line_no - 1
            while i > 0 and '"ev":"reset"' not in tl[i]:
                i -= 1
            return json.loads(tl[i])["trace"]
        failing = {}
        for (i, l) in r["fails"]:
            if i == mon:
                failing.setdefault(trace_id_of(l), l)
        for ln in suspects:
            cfgs_ = json.dumps(edge_path_script(edges, ln)["cfg"]) if (ln in failing or ln in direct) else ""
            if ln in failing or ln in direct:
                tp = os.path.join(REPLAYS, "%s_edge_%d.ndjson" % (pid, ln))
                any_line = next(i for i, x in enumerate(tl) if '"ev":"reset"' in x and json.loads(x)["trace"] == ln) + 1
                extract_trace(tp_all, any_line, tp)
                _rp.sidecar(tp, "engine", {"script": next(sc for sc in scripts if sc["id"] == ln)})
                if ln in failing:
                    violations.append(("monitor P_%s false on the real path to explored transition %d (%s)" %
                                       (mon, ln, cfgs_), tp))
                else:
                    violations.append(("monitor P_%s false on transition %d of the explored graph (%s)" %
                                       (mon, ln, cfgs_), tp))
        ndr = len(drifting)
        if ndr and not violations:
            drift_notes.append("SPEC-DRIFT %d explored transitions deviate from the operational specification; "
                               "no monitor of %s fails on the %d replayed paths (first line %d)" %
                               (ndr, pid, checked, drifting[0]))
    info["edges"]["suspects_replayed"] = checked

    # ------------------------------------------------------------------ 3. random traces
    rnd = os.path.join(wd, "random.ndjson")
    ntr, ln_ = (8000, 150) if thorough else (220, 50)
    rs = harness_json(["engine-rand", "--seed", str(seed), "--traces", str(ntr), "--len", str(ln_),
                       "--keys", "12" if thorough else "9", "--policies", ",".join(sorted(spec["pols"])),
                       # the extreme weight only where no score clause is judged (C04, C16)
                       "--weights", ",".join(["none", "0.1", "0.3", "1", "1.5", "3"] + (["5000"] if "5000" in ENGINE[pid]["weights"] else [])),
                       "--out", rnd],
                      timeout=3000)
    tv = validate_file("Trace", tcfg, rnd, pid + "_rand", nshards=14, timeout=3000)
    if tv["errors"]:
        raise ToolError("trace validation incomplete: " + "; ".join(tv["errors"][:3]))
    mine = sorted(set(l for (i, l) in tv["fails"] if i == mon))
    for ln in mine[:10]:
        tp = os.path.join(REPLAYS, "%s_rand_%d_%d.ndjson" % (pid, seed, ln))
        inner = extract_trace(rnd, ln, tp)
        _rp.sidecar(tp, "engine", {"script": trace_to_script(open(tp).readlines())})
        violations.append(("monitor P_%s false on line %d of a random history" % (mon, inner), tp))
    for (i, l) in tv["drifts"][:10]:
        drift_notes.append("SPEC-DRIFT trace line=%d (%s)" % (l, i))
    info["random"] = {"traces": rs["traces"], "events": rs["events"], "drift": len(tv["drifts"]),
                      "monitor_failures": len(mine)}
    log("[%s] random histories: %d traces / %d events validated by TLC; drift %d, monitor failures %d" %
        (pid, rs["traces"], rs["events"], len(tv["drifts"]), len(mine)))

    # ------------------------------------------------------------------ 4. the same monitors on macro-generated functions
    import macro_scripts as _ms
    fx = _ms.load_fixtures()
    names = [n for n, f in fx.items() if f["cfg"]["policy"] in spec["pols"] and not n.startswith("a_await")
             and (f["cfg"]["limit"] or f["cfg"]["maxmem"] or f["cfg"]["ttl"])]
    rng = random.Random(seed * 7 + int(pid[1:]))
    mscripts = []
    for i in range(400 if thorough else 70):
        ns = rng.sample(names, 1 if rng.random() < 0.7 else 2)
        # (conditional and group invalidations included: the bounds hold "as if the removed entries had never
        # been stored")
        mscripts.append(_ms.random_script(rng, fx, ns, i + 1, 80 if thorough else 45, nkeys=rng.choice([4, 5, 7]),
                                          registry=(i % 2 == 0)))
    if pid == "C04":
        # a conditional invalidation, a refill up to the limit and a run of overflowing stores: the removed
        # entries must not count (or linger in the queue) afterwards -- under Random a stale queue position
        # is hit only by chance, hence the long tail of stores
        for n in sorted(names):
            f = fx[n]
            if not f["cfg"]["limit"] or f["cfg"]["maxmem"] or f["cfg"]["ttl"] or f["hasCif"] or f["hasInv"] or f["isResult"] \
                    or f.get("corpus") or f.get("sig", "k") != "k" or f["kind"] == "thread":
                continue
            lim = f["cfg"]["limit"]
            for sel in (["1"], [str(lim)], [str(k) for k in range(1, lim + 1)]):
                ops = [{"op": "call", "f": n, "t": 1, "k": k} for k in range(1, lim + 1)]
                ops.append({"op": "inv_with", "x": f["cache_name"], "sel": sel})
                ops += [{"op": "call", "f": n, "t": 1, "k": k} for k in range(lim + 1, lim + 16)]
                mscripts.append({"id": len(mscripts) + 1, "fixtures": [n], "threads": 1, "ops": ops})
    msp = os.path.join(wd, "macro_scripts.jsonl")
    _ms.write_scripts(msp, mscripts)
    mtr = os.path.join(wd, "macro_traces.ndjson")
    harness_json(["macro", "--script", msp, "--out", mtr], timeout=3000)
    mv = validate_file("Trace", tcfg, mtr, pid + "_macro", nshards=14, timeout=3000)
    if mv["errors"]:
        raise ToolError("macro trace validation incomplete: " + "; ".join(mv["errors"][:3]))
    mmine = sorted(set(l for (i, l) in mv["fails"] if i == mon))
    for ln in mmine[:5]:
        tp = os.path.join(REPLAYS, "%s_macro_%d_%d.ndjson" % (pid, seed, ln))
        inner = extract_trace(mtr, ln, tp)
        tid = json.loads(open(tp).readline()).get("trace")
        sc = next((x for x in mscripts if x["id"] == tid), None)
        if sc:
            _rp.sidecar(tp, "macro", {"script": sc})
        violations.append(("monitor P_%s false on line %d of a history of macro-generated functions" % (mon, inner), tp))
    info["macro"] = {"traces": len(mscripts), "events": mv["lines"], "drift": len(mv["drifts"]), "monitor_failures": len(mmine)}
    log("[%s] macro-generated functions: %d traces / %d events validated by TLC; drift %d, monitor failures %d" %
        (pid, len(mscripts), mv["lines"], len(mv["drifts"]), len(mmine)))

    # samples for the evidence file
    samples = []
    with open(rnd) as f:
        lines = [next(f) for _ in range(6)]
    samples.append({"kind": "random history (first events)", "events": [json.loads(l) for l in lines]})
    with open(edges) as f:
        f.readline()
        samples.append({"kind": "explored transition", "edge": json.loads(f.readline())})
    coverage = {
        "states": mc["distinct"], "transitions": mc["generated"],
        "traces_validated_against_impl": rs["traces"] + checked + len(mscripts),
        "impl_transitions_checked_against_spec": ev["lines"],
        "samples": samples,
        "exhaustive": ex.get("truncated_cfgs", 0) == 0,
        "explanation": "TLC proved the property on the bounded specification graph; the real engines' own "
                       "bounded state graph was explored exhaustively and every transition checked by TLC "
                       "against the specification; random histories validated step by step.",
        "details": info,
        "spec_drift": drift_notes[:20],
    }
    return violations, drift_notes, coverage, time.time() - t_start


def run_memest_check(pid, tier, seed, wd):
    """C05, estimator fidelity: est = Footprint(descriptor) (MemEst.tla) for values of the standard types."""
    t0 = time.time()
    n = 2500 if tier == "thorough" else 400
    tr = os.path.join(wd, "memest.ndjson")
    rs = harness_json(["memest", "--seed", str(seed), "--n", str(n), "--out", tr])
    cfg = os.path.join(wd, "MemEst.cfg")
    open(cfg, "w").write("SPECIFICATION MSpec\nINVARIANT Done\nCHECK_DEADLOCK FALSE\n")
    tv = validate_file("MemEst", cfg, tr, pid + "_memest", nshards=8, boundary=None, timeout=1200)
    if tv["errors"]:
        raise ToolError("memest validation incomplete: " + "; ".join(tv["errors"][:3]))
    fails = sorted(set(l for (i, l) in tv["fails"] if i == "C05"))
    violations = []
    lines = open(tr).readlines()
    os.makedirs(REPLAYS, exist_ok=True)
    seen_ty = set()
    for ln in fails:
        e = json.loads(lines[ln - 1])
        if e["ty"] in seen_ty:
            continue
        seen_ty.add(e["ty"])
        tp = os.path.join(REPLAYS, "%s_memest_%d.ndjson" % (pid, ln))
        open(tp, "w").write(lines[ln - 1])
        _rp.sidecar(tp, "memest", {"seed": seed, "n": n})
        violations.append(("estimate_memory() of a %s is %d, its inline size plus owned heap capacity is different (descriptor in the replay file)"
                           % (e["ty"], e["est"]), tp))
    log("[%s] estimator fidelity: %d values of 16 standard types, TLC compared estimate with Footprint(descriptor): %d mismatches" %
        (pid, rs["events"], len(fails)))
    cov = {"states": rs["events"], "transitions": rs["events"], "traces_validated_against_impl": rs["events"],
           "samples": [json.loads(lines[i]) for i in (0, 7)], "details": {"values": rs["events"], "mismatches": len(fails)},
           "explanation": "estimate_memory() vs MemEst!Footprint on generated values of the std types the property names"}
    return violations, [], cov, time.time() - t0
