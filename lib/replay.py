"""./check <id> --replay <path>: re-run the exact history / schedule of a reported violation against
the CURRENT /repo tree and judge it again with TLC. Every replay file has a sidecar
<path>.replay.json = {kind, script | job | ...} written when the violation was reported."""
import json, os, sys, shutil
from vlib import *


def sidecar(path, kind, payload):
    d = {"kind": kind}
    d.update(payload)
    json.dump(d, open(path + ".replay.json", "w"))


def _judge(pid, module, cfg_text, trace, ids=None):
    wd = os.path.join(WORK, "replay_tmp")
    os.makedirs(wd, exist_ok=True)
    cfg = os.path.join(wd, module + ".cfg")
    open(cfg, "w").write(cfg_text)
    r = tlc_lines(module, cfg, trace, "replay_" + pid)
    ids = ids or {pid}
    mine = [(i, l) for (i, l) in r["fails"] if i in ids]
    return mine, r


TRACE_CFG = "SPECIFICATION TraceSpec\nCONSTANTS\n  Quirks = {}\nINVARIANT Done\nCHECK_DEADLOCK FALSE\n"


def replay(pid, path):
    sc = path + ".replay.json"
    if not os.path.exists(sc):
        log("no sidecar %s: cannot replay" % sc)
        return 2
    info = json.load(open(sc))
    ensure_scoretab()
    build_harness()
    wd = os.path.join(WORK, "replay_tmp")
    shutil.rmtree(wd, ignore_errors=True)
    os.makedirs(wd, exist_ok=True)
    out = os.path.join(wd, "replayed.ndjson")
    kind = info["kind"]
    ids = {pid} | ({"C17"} if pid == "C18" else set())
    if kind in ("engine", "macro"):
        sp = os.path.join(wd, "script.jsonl")
        open(sp, "w").write(json.dumps(info["script"]) + "\n")
        harness([kind if kind == "macro" else "engine", "--script", sp, "--out", out])
        if kind == "macro" and info.get("any_monitor"):
            mine, r = _judge(pid, "Trace", TRACE_CFG, out, ids=None)
            mine = r["fails"]
        else:
            mine, r = _judge(pid, "Trace", TRACE_CFG, out, ids)
    elif kind == "conc":
        jp = os.path.join(wd, "job.json")
        json.dump(info["job"], open(jp, "w"))
        harness(["conc", "--job", jp, "--out", out, "--log-all"])
        mine, r = _judge(pid, "Trace", TRACE_CFG, out, ids)
    elif kind == "keys":
        sp = os.path.join(wd, "keys.jsonl")
        with open(sp, "w") as f:
            for l in info["lines"]:
                f.write(json.dumps(l) + "\n")
        harness(["keys", "--script", sp, "--out", out])
        mine, r = _judge(pid, "KeysTrace", "SPECIFICATION KSpec\nINVARIANT Done\nCHECK_DEADLOCK FALSE\n", out, {"C02"})
    elif kind == "memest":
        harness(["memest", "--seed", str(info["seed"]), "--n", str(info["n"]), "--out", out])
        mine, r = _judge(pid, "MemEst", "SPECIFICATION MSpec\nINVARIANT Done\nCHECK_DEADLOCK FALSE\n", out, {"C05"})
    else:
        log("replay of kind %s: re-run ./check %s" % (kind, pid))
        return 2
    if r["errors"] or r["done"] is None:
        log("TOOL-ERROR: replay validation failed: %s" % (r["errors"][:2] or r["out"][-500:]))
        return 2
    if mine:
        keep = os.path.join(REPLAYS, os.path.basename(path) + ".rerun.ndjson")
        shutil.copy(out, keep)
        log("VIOLATION property=%s replay=%s" % (pid, path))
        log("  reproduced on the current tree: %s (re-recorded trace: %s)" % (mine[:3], keep))
        return 1
    log("[%s] replay of %s: the history no longer violates the property on the current tree" % (pid, path))
    return 0
