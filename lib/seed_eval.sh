#!/bin/bash
# usage: seed_eval.sh <seed-name> <worktree> <property> [more properties...]
# Confirms a seeded change (compiles, suite passes, demo fails with / passes without), stores it under
# /verif/seeded/<name>/ and runs the registered quick checks against it.
set -u
NAME=$1; WT=$2; shift 2; PROPS="$@"
OUT=/verif/seeded/$NAME
mkdir -p $OUT
cp $WT/out/patch.diff $OUT/patch.diff
cp $WT/out/notes.md $OUT/notes.md 2>/dev/null
cp $WT/out/demo_cmd.txt $OUT/demo_cmd.txt 2>/dev/null
for f in $WT/out/*.rs; do cp $f $OUT/; done
cd $WT
DEMO_CMD=$(grep -o 'cargo test.*' out/demo_cmd.txt | head -1)
DEMO_FILES=$(git status --porcelain -uall | grep '^??' | awk '{print $2}' | grep -v '^out/' | grep '\.rs$')
LOG=$OUT/confirm.log; : > $LOG
echo "demo files: $DEMO_FILES" >> $LOG
echo "demo cmd: $DEMO_CMD" >> $LOG
# 1. with the change: demo must fail
( eval "$DEMO_CMD" ) >> $LOG 2>&1; RC_WITH=$?
# 2. with the change, without the demo: whole suite must pass
mkdir -p /tmp/demo_stash_$NAME; for f in $DEMO_FILES; do mkdir -p /tmp/demo_stash_$NAME/$(dirname $f); mv $f /tmp/demo_stash_$NAME/$f; done
cargo test --workspace --no-fail-fast --offline > $OUT/suite.log 2>&1; RC_SUITE=$?
PASSED=$(grep -E "^test result" $OUT/suite.log | awk '{p+=$4; f+=$6} END {print p" passed "f" failed"}')
for f in $DEMO_FILES; do mv /tmp/demo_stash_$NAME/$f $f; done; rm -rf /tmp/demo_stash_$NAME
# 3. without the change: demo must pass
git apply -R out/patch.diff >> $LOG 2>&1
( eval "$DEMO_CMD" ) >> $LOG 2>&1; RC_WITHOUT=$?
git apply out/patch.diff >> $LOG 2>&1
echo "demo_with_change_rc=$RC_WITH suite_rc=$RC_SUITE ($PASSED) demo_without_change_rc=$RC_WITHOUT" | tee -a $LOG
tail -c 600 $OUT/suite.log > $OUT/suite_tail.log; rm -f $OUT/suite.log
# 4. our checks against it
cd /repo && git apply $OUT/patch.diff || { echo "patch does not apply to /repo"; exit 3; }
RES=""
for P in $PROPS; do
  ( cd /verif && ./check $P --tier quick > $OUT/check_$P.log 2>&1 ); RC=$?
  RES="$RES $P:rc=$RC"
  grep -E "^VIOLATION|^KNOWN|^TOOL-ERROR" $OUT/check_$P.log | head -3
done
cd /repo && git checkout -- . 
echo "checks:$RES" | tee -a $LOG
python3 - <<PY
import json
json.dump({"name":"$NAME","properties":"$PROPS".split(),"confirm":{"demo_with_change_rc":$RC_WITH,"suite_rc":$RC_SUITE,"suite":"$PASSED","demo_without_change_rc":$RC_WITHOUT},
 "checks":"$RES".split()}, open("$OUT/result.json","w"), indent=1)
PY
