#!/bin/bash
# run every quick check on the current tree; refreshes /verif/evidence
cd /verif
for P in C01 C02 C03 C04 C05 C06 C07 C08 C09 C10 C11 C12 C13 C14 C15 C16 C17 C18 C19 C20; do
  S=$(date +%s); ./check $P --tier ${1:-quick} > work/all_$P.log 2>&1; RC=$?; E=$(date +%s)
  echo "$P rc=$RC $((E-S))s $(grep -c '^SPEC-DRIFT' work/all_$P.log) drift $(grep -E '^VIOLATION|^TOOL-ERROR' work/all_$P.log | head -1 | cut -c1-150)"
done
