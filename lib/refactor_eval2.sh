#!/bin/bash
# usage: refactor_eval2.sh <name> <worktree-with-the-change-applied>
# False-alarm experiment: every quick check against a behaviour-preserving change, in a private copy of
# /verif bound to the worktree (neither /repo nor /verif is touched).
NAME=$1; WT=$2
OUT=/verif/seeded/preserving/$NAME
mkdir -p $OUT
[ -f $WT/out/patch.diff ] && cp $WT/out/patch.diff $OUT/patch.diff
[ -f $WT/out/notes.md ] && cp $WT/out/notes.md $OUT/notes.md
VC=/tmp/ve_$NAME
rm -rf $VC; mkdir -p $VC
rsync -a --exclude work --exclude .git --exclude seeded /verif/ $VC/
mkdir -p $VC/work
sed -i "s#\"/repo#\"$WT#g" $VC/harness/Cargo.toml $VC/lib/attrs_check.py
RES=""
for P in C01 C02 C03 C04 C05 C06 C07 C08 C09 C10 C11 C12 C13 C14 C15 C16 C17 C18 C19 C20; do
  ( cd $VC && ./check $P --tier quick > $OUT/check_$P.log 2>&1 ); RC=$?
  RES="$RES $P:$RC"
  echo "$P rc=$RC $(grep -c '^SPEC-DRIFT' $OUT/check_$P.log) drift-lines; $(grep -E '^VIOLATION|^TOOL-ERROR' $OUT/check_$P.log | head -2 | cut -c1-200)"
done
rm -rf $VC
echo "result:$RES" | tee $OUT/result.txt
