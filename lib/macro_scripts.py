"""Random / enumerated scripts for the macro-level driver (`vharness macro`)."""
import json, os, random, itertools

HERE = os.path.dirname(os.path.abspath(__file__))


def load_fixtures():
    return {f["name"]: f for f in json.load(open(os.path.join(os.path.dirname(HERE), "harness", "fixtures.json")))}


def call_op(rng, f, fx, threads, nkeys):
    op = {"op": "call", "f": f, "t": rng.randint(1, threads), "k": rng.randint(1, nkeys)}
    fi = fx[f]
    if fi["isResult"]:
        op["ok"] = rng.random() < 0.6
    if fi["hasCif"]:
        op["cif"] = rng.random() < 0.6
    if fi["hasInv"]:
        op["inv"] = rng.random() < 0.4
    if fi["cfg"]["maxmem"]:
        mm = fi["cfg"]["maxmem"]
        if mm > (1 << 21):
            # a limit too large to fill (e.g. "1GB"): small values only, nothing may ever be evicted
            op["size"] = rng.choice([32, 40, 1000, 5000])
        else:
            op["size"] = rng.choice([32, 40, mm // 2, mm // 2 + 6, mm - 8, mm, mm + 1, mm + 30])
    return op


def random_script(rng, fx, names, sid, length, threads=None, nkeys=None, registry=False, stats=False):
    threads = threads or rng.choice([1, 1, 2, 3])
    nkeys = nkeys or rng.choice([3, 4, 5, 6])
    has_ttl = any(fx[n]["cfg"]["ttl"] for n in names)
    ops = []
    tags = sorted({t for n in names for t in fx[n]["tags"]} | {"zz"})
    events = sorted({t for n in names for t in fx[n]["events"]} | {"zz"})
    deps = sorted({t for n in names for t in fx[n]["deps"]} | {"zz"})
    cnames = sorted({fx[n]["cache_name"] for n in names} | {"nobody"})
    # a request of one kind is also made with the labels of the other kinds (a tag name used as an event ...)
    anylabel = sorted(set(tags) | set(events) | set(deps) | set(cnames))

    def label(own):
        return rng.choice(own) if rng.random() < 0.6 else rng.choice(anylabel)
    for _ in range(length):
        r = rng.random()
        if registry and r < 0.18:
            kind = rng.choice(["inv_tag", "inv_event", "inv_dep", "inv_name", "inv_with", "inv_all_with"])
            if kind == "inv_tag":
                ops.append({"op": kind, "x": label(tags)})
            elif kind == "inv_event":
                ops.append({"op": kind, "x": label(events)})
            elif kind == "inv_dep":
                ops.append({"op": kind, "x": label(deps + cnames)})
            elif kind == "inv_name":
                ops.append({"op": kind, "x": label(cnames)})
            elif kind == "inv_with":
                sel = [str(k) for k in range(1, nkeys + 1) if rng.random() < 0.4]
                ops.append({"op": kind, "x": rng.choice(cnames), "sel": sel})
            else:
                sel = {c: [str(k) for k in range(1, nkeys + 1) if rng.random() < 0.4]
                       for c in cnames if rng.random() < 0.7}
                ops.append({"op": kind, "sel": sel})
        elif stats and r < 0.3:
            ops.append({"op": rng.choice(["stats_get", "stats_get", "stats_reset"]), "x": rng.choice(cnames)})
        elif has_ttl and r < 0.42:
            ops.append({"op": "tick", "d": 1})
        else:
            ops.append(call_op(rng, rng.choice(names), fx, threads, nkeys))
    return {"id": sid, "fixtures": list(names), "threads": threads, "ops": ops}


def write_scripts(path, scripts):
    with open(path, "w") as f:
        for s in scripts:
            f.write(json.dumps(s) + "\n")


def exhaustive_scripts(fx, name, alphabet, length, start_id=0, threads=1):
    """All operation sequences of the given length over the alphabet (list of op dicts)."""
    out = []
    for i, seq in enumerate(itertools.product(alphabet, repeat=length)):
        out.append({"id": start_id + i, "fixtures": [name], "threads": threads, "ops": [dict(o) for o in seq]})
    return out
