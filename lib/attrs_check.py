"""C19: macro attributes mean what they say. Attrs.tla gives the meaning of an attribute list
(reject / engine configuration with units as powers of 1024); the corpus (covering array over
attribute values x signature shapes, both macros) is compiled into the harness and driven; every
recorded step is judged by TLC against the configuration AS WRITTEN; invalid lists must not compile."""
import json, os, random, re, shutil, time
from vlib import *
import vlib
from macro_scripts import load_fixtures, random_script, write_scripts
import attr_corpus
import replay as _rp


def unit_scripts(fx, rng):
    """boundary histories for max_memory units: totals that fit n*1024^u but not n*1000^u"""
    out = []
    for name, f in fx.items():
        if not f.get("corpus"):
            continue
        mm = f["cfg"]["maxmem"]
        if mm not in (1024, 2048, 1024 * 1024) or f["ret"] not in ("str", "res_str"):
            continue
        third = (mm // 3) - (8 if f["ret"] == "res_str" else 0) - 1     # three values: > decimal unit, <= binary unit
        keys = (1, 2, 3) if f["sig"] not in ("zero",) else (1,)
        ops = [{"op": "call", "f": name, "k": k, "size": third, "ok": True, "cif": True, "inv": False} for k in keys]
        ops += [{"op": "call", "f": name, "k": k, "size": third, "ok": True, "cif": True, "inv": False} for k in keys]
        ops += [{"op": "call", "f": name, "k": 4, "size": third, "ok": True, "cif": True}]
        ops += [{"op": "call", "f": name, "k": k, "size": third, "ok": True, "cif": True} for k in keys]
        out.append({"id": 7000 + len(out), "fixtures": [name], "threads": 1, "ops": ops})
    return out


def run_attrs_check(pid, tier, seed, wd):
    t0 = time.time()
    thorough = tier == "thorough"
    violations, drift, info = [], [], {}
    rng = random.Random(seed * 13 + 19)
    fx = load_fixtures()
    corpus = {n: f for n, f in fx.items() if f.get("corpus")}

    # 1. specification vs generator on every row (valid and invalid)
    rows = os.path.join(HARNESS, "attr_rows.ndjson")
    acfg = os.path.join(wd, "Attrs.cfg")
    open(acfg, "w").write("SPECIFICATION ASpec\nINVARIANT Done\nCHECK_DEADLOCK FALSE\n")
    r = tlc_lines("Attrs", acfg, rows, pid + "_attrs")
    nrows = count_lines(rows)
    if r["done"] != nrows or r["fails"] or r["errors"]:
        raise ToolError("Attrs.tla and the corpus generator disagree on rows %s %s" % (r["fails"][:5], r["errors"][:2]))
    log("[%s] Attrs.tla: Expected(row) agrees with the corpus generator on all %d rows (%d valid, %d invalid)" %
        (pid, nrows, len(corpus), nrows - len(corpus)))

    # 2. the valid corpus compiles
    if not vlib.CORPUS_STATE["ok"]:
        errs = [l for l in vlib.CORPUS_STATE["errors"].splitlines() if l.startswith("error") or "-->" in l][:12]
        tp = os.path.join(REPLAYS, "%s_corpus_build.log" % pid)
        os.makedirs(REPLAYS, exist_ok=True)
        open(tp, "w").write(vlib.CORPUS_STATE["errors"])
        violations.append(("a valid attribute list of the corpus does not compile: " + " | ".join(errs)[:600], tp))
    else:
        # 3. behaviour under the configuration as written
        scripts = unit_scripts(fx, rng)
        sid = 0
        names = sorted(corpus)
        for n in names:
            for _ in range(40 if thorough else 2):
                sid += 1
                f = corpus[n]
                s = random_script(rng, fx, [n], sid, 100 if thorough else 45, threads=3 if f["kind"] == "thread" else 2,
                                  nkeys=5, registry=bool(f["tags"] or f["events"] or f["deps"]), stats=True)
                scripts.append(s)
        for _ in range(1500 if thorough else 20):
            sid += 1
            ns = rng.sample(names, 3)
            scripts.append(random_script(rng, fx, ns, sid, 60, threads=2, nkeys=4, registry=True, stats=True))
        # the 1MB fixtures need large values: cap the sizes random_script picked to sensible fractions
        sp = os.path.join(wd, "scripts.jsonl")
        write_scripts(sp, scripts)
        tr = os.path.join(wd, "traces.ndjson")
        rs = harness_json(["macro", "--script", sp, "--out", tr], timeout=3000)
        tcfg = os.path.join(wd, "Trace.cfg")
        write_cfg(tcfg, "TraceSpec", {"Quirks": set()}, invariants=["Done"])
        tv = validate_file("Trace", tcfg, tr, pid + "_corpus", nshards=14, timeout=3000)
        if tv["errors"]:
            raise ToolError("corpus trace validation incomplete: " + "; ".join(tv["errors"][:3]))
        fails = sorted(set(l for (i, l) in tv["fails"]))
        os.makedirs(REPLAYS, exist_ok=True)
        seen = set()
        lines = open(tr).readlines() if fails else []
        for ln in fails:
            j = ln - 1
            while j > 0 and '"ev":"reset"' not in lines[j]:
                j -= 1
            fixtures = tuple(sorted(set(m["fixture"] for m in json.loads(lines[j])["metas"].values())))
            e = json.loads(lines[ln - 1])
            who = e.get("n", "").split("@")[0] or fixtures[0]
            if who in seen:
                continue
            seen.add(who)
            ids = sorted(set(i for (i, l) in tv["fails"] if l == ln))
            tp = os.path.join(REPLAYS, "%s_corpus_%s_%d.ndjson" % (pid, who, ln))
            inner = extract_trace(tr, ln, tp)
            tid = json.loads(open(tp).readline()).get("trace")
            sc = next((x for x in scripts if x["id"] == tid), None)
            if sc:
                _rp.sidecar(tp, "macro", {"script": sc, "any_monitor": True})
            attrs = fx.get(who, {}).get("attrs", "?")
            violations.append(("#[%s(%s)] fn %s does not behave like the cache its attributes describe: monitors %s false on line %d"
                               % ("cache_async" if fx.get(who, {}).get("kind") == "async" else "cache", attrs, who, ids, inner), tp))
        nd = len(tv["drifts"])
        if nd:
            drift.append("SPEC-DRIFT %d corpus steps deviate from the operational specification under the written configuration (first line %d)"
                         % (nd, tv["drifts"][0][1]))
        info["corpus"] = {"functions": len(corpus), "traces": len(scripts), "events": tv["lines"], "drift": nd,
                          "functions_failing": len(seen)}
        log("[%s] %d corpus functions driven (%d traces / %d events), judged by TLC under the configuration as written: %d functions fail, drift %d" %
            (pid, len(corpus), len(scripts), tv["lines"], len(seen), nd))

    # 4. invalid attribute lists must be rejected at compile time
    bad = attr_corpus.invalid_rows()
    bd = os.path.join(WORK, "attrbad")
    shutil.rmtree(os.path.join(bd, "src"), ignore_errors=True)
    os.makedirs(os.path.join(bd, "src"), exist_ok=True)
    os.makedirs(os.path.join(bd, ".cargo"), exist_ok=True)
    open(os.path.join(bd, "Cargo.toml"), "w").write('''[workspace]
members = ["."]
[package]
name = "attrbad"
version = "0.1.0"
edition = "2021"
[features]
default = ["stats"]
stats = []
[dependencies]
cachelito = { path = "/repo" }
cachelito-async = { path = "/repo/cachelito-async" }
cachelito-core = { path = "/repo/cachelito-core" }
once_cell = "1.21.3"
parking_lot = "0.12"
dashmap = "6.1"
''')
    open(os.path.join(bd, ".cargo", "config.toml"), "w").write('[net]\noffline = true\n[build]\ntarget-dir = "%s"\n' %
                                                                 os.path.join(HARNESS, "target", "attrbad"))
    shutil.copy("/repo/Cargo.lock", os.path.join(bd, "Cargo.lock"))
    src = ["#![allow(dead_code, unused)]", "use cachelito::cache;", "use cachelito_async::cache_async;", ""]
    spans = []
    for b in bad:
        start = len(src) + 1
        if b["macro"] == "async":
            src.append("#[cache_async(%s)]" % b["attrs"])
            src.append("pub async fn bad_%s(k: u32) -> u64 { k as u64 }" % b["id"])
        else:
            src.append("#[cache(%s)]" % b["attrs"])
            src.append("pub fn bad_%s(k: u32) -> u64 { k as u64 }" % b["id"])
        spans.append((start, len(src), b))
        src.append("")
    # one well-formed control item: it must NOT produce an error
    ctl = len(src) + 1
    src += ['#[cache(limit = 3, policy = "lru")]', "pub fn control_ok(k: u32) -> u64 { k as u64 }", ""]
    open(os.path.join(bd, "src", "lib.rs"), "w").write("\n".join(src) + "\n")
    p = sh(["cargo", "check", "--offline", "--message-format=json"], cwd=bd, env={"CARGO_NET_OFFLINE": "true"},
           timeout=1500, check=False)
    err_lines = set()
    for l in p.stdout.splitlines():
        if not l.startswith("{"):
            continue
        try:
            m = json.loads(l)
        except Exception:
            continue
        msg = m.get("message") or {}
        if m.get("reason") == "compiler-message" and msg.get("level") == "error":
            for sp_ in msg.get("spans", []):
                if sp_.get("file_name", "").endswith("lib.rs"):
                    for x in range(sp_["line_start"], sp_["line_end"] + 1):
                        err_lines.add(x)
    if any(ctl <= x <= ctl + 1 for x in err_lines):
        raise ToolError("the well-formed control item of the invalid corpus was rejected: " + p.stdout[-1500:])
    if not err_lines and p.returncode != 0 and '"level":"error"' not in p.stdout:
        raise ToolError("cargo check of the invalid corpus failed for another reason:\n" + p.stdout[-2000:])
    accepted = [b for (a, z, b) in spans if not any(a <= x <= z for x in err_lines)]
    for b in accepted[:10]:
        tp = os.path.join(REPLAYS, "%s_invalid_%s.rs" % (pid, b["id"]))
        open(tp, "w").write("// accepted although invalid:\n#[%s(%s)]\npub fn f(k: u32) -> u64 { k as u64 }\n" %
                            ("cache_async" if b["macro"] == "async" else "cache", b["attrs"]))
        violations.append(("invalid attribute list accepted by %s: %s" % ("cache_async" if b["macro"] == "async" else "cache", b["attrs"]), tp))
    info["invalid"] = {"lists": len(bad), "rejected": len(bad) - len(accepted), "accepted": [b["id"] for b in accepted]}
    log("[%s] invalid attribute lists: %d of %d rejected at compile time" % (pid, len(bad) - len(accepted), len(bad)))
    sample_rows = [json.loads(l) for l in open(rows).readlines()[:2]]
    cov = {"states": nrows, "transitions": nrows,
           "traces_validated_against_impl": info.get("corpus", {}).get("traces", 0) + len(bad),
           "samples": [{"kind": "corpus row", "row": sample_rows[0]},
                       {"kind": "decorated function", "attrs": next(iter(corpus.values()))["attrs"]},
                       {"kind": "invalid list", "attrs": bad[0]["attrs"]}],
           "exhaustive": False,
           "explanation": "states = attribute rows whose meaning Attrs.tla defines (covering array: all pairs of attribute values x "
                          "signature shapes, both macros, plus invalid lists); every valid row is a compiled function driven by random "
                          "and unit-boundary histories whose every step TLC judges under the configuration as written; every "
                          "invalid row must fail to compile.",
           "details": info, "spec_drift": drift}
    return violations, drift, cov, time.time() - t0
