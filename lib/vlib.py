"""Shared machinery of the /verif checks: building the harness, running TLC (model checking,
trace validation, edge conformance), sharding, known findings, evidence files.

Exit-code convention (see DESIGN.md 3.5):
  0  property held on everything explored (possibly with SPEC-DRIFT / KNOWN-FINDING lines)
  1  VIOLATION property=<id> replay=<path>   (a monitor was false on a step the real code took,
                                             or the real code panicked / deadlocked / hung)
  2  tool error (build failure, TLC failure on the specification itself, timeout)
"""
import json, os, re, shutil, subprocess, sys, time, hashlib, concurrent.futures

VERIF = os.path.dirname(os.path.dirname(os.path.abspath(__file__)))
SPEC = os.path.join(VERIF, "spec")
HARNESS = os.path.join(VERIF, "harness")
WORK = os.path.join(VERIF, "work")
EVID = os.path.join(VERIF, "evidence")
REPLAYS = os.path.join(WORK, "replays")
BIN = os.path.join(HARNESS, "target", "debug", "vharness")
JAVA_OPTS = "-Xss1g -Dtlc2.tool.queue.IStateQueue=StateDeque"


class ToolError(Exception):
    pass


def log(*a):
    print(*a, flush=True)


def sh(cmd, cwd=None, env=None, timeout=None, check=True):
    e = dict(os.environ)
    if env:
        e.update(env)
    try:
        p = subprocess.run(cmd, cwd=cwd, env=e, timeout=timeout, stdout=subprocess.PIPE,
                           stderr=subprocess.STDOUT, text=True)
    except subprocess.TimeoutExpired as ex:
        raise ToolError("timeout after %ss: %s" % (timeout, " ".join(cmd)))
    if check and p.returncode != 0:
        raise ToolError("command failed (%d): %s\n%s" % (p.returncode, " ".join(cmd), p.stdout[-4000:]))
    return p


# ---------------------------------------------------------------------------------------------
# build
# ---------------------------------------------------------------------------------------------

CORPUS_STATE = {"ok": True, "errors": ""}


def build_harness():
    """(Re)build the harness against /repo's current working tree (incremental). If the build only
    fails because a VALID attribute list of the C19 corpus no longer compiles, fall back to a build
    without the corpus (every other check still runs; C19 reports the corpus failure)."""
    os.makedirs(WORK, exist_ok=True)
    env = {"CARGO_NET_OFFLINE": "true"}
    t0 = time.time()
    p = sh(["cargo", "build", "--offline"], cwd=HARNESS, env=env, timeout=1500, check=False)
    if p.returncode != 0:
        p2 = sh(["cargo", "build", "--offline", "--no-default-features", "--features", "stats"], cwd=HARNESS,
                env=env, timeout=1500, check=False)
        if p2.returncode != 0:
            raise ToolError("harness build failed:\n" + p.stdout[-6000:])
        CORPUS_STATE["ok"] = False
        CORPUS_STATE["errors"] = p.stdout
    return time.time() - t0


def ensure_scoretab():
    out = os.path.join(SPEC, "ScoreTab.tla")
    if not os.path.exists(out):
        sh([sys.executable, os.path.join(VERIF, "lib", "gen_scoretab.py"), out])


def harness(args, timeout=600, check=True):
    p = sh([BIN] + args, cwd=WORK, timeout=timeout, check=check)
    return p


def harness_json(args, timeout=600):
    p = harness(args, timeout=timeout)
    last = [l for l in p.stdout.strip().splitlines() if l.startswith("{")]
    if not last:
        raise ToolError("harness produced no summary: " + p.stdout[-2000:])
    return json.loads(last[-1])


# ---------------------------------------------------------------------------------------------
# TLC
# ---------------------------------------------------------------------------------------------

def tla_value(v):
    if isinstance(v, bool):
        return "TRUE" if v else "FALSE"
    if isinstance(v, int):
        return str(v)
    if isinstance(v, str):
        return '"%s"' % v
    if isinstance(v, (set, frozenset, list, tuple)) and not isinstance(v, tuple):
        items = sorted(v, key=lambda x: (str(type(x)), x)) if isinstance(v, (set, frozenset)) else list(v)
        if isinstance(v, list):
            return "<<" + ", ".join(tla_value(x) for x in items) + ">>"
        return "{" + ", ".join(tla_value(x) for x in items) + "}"
    raise ValueError("cannot render %r" % (v,))


def write_cfg(path, spec, constants, invariants=(), properties=(), constraint=None, view=None,
              action_constraint=None, postcondition=None):
    lines = ["SPECIFICATION " + spec] + (["CONSTANTS"] if constants else [])
    for k, v in constants.items():
        lines.append("  %s = %s" % (k, tla_value(v)))
    if invariants:
        lines.append("INVARIANTS " + " ".join(invariants))
    if properties:
        lines.append("PROPERTIES " + " ".join(properties))
    if constraint:
        lines.append("CONSTRAINT " + constraint)
    if action_constraint:
        lines.append("ACTION_CONSTRAINT " + action_constraint)
    if view:
        lines.append("VIEW " + view)
    if postcondition:
        lines.append("POSTCONDITION " + postcondition)
    lines.append("CHECK_DEADLOCK FALSE")
    with open(path, "w") as f:
        f.write("\n".join(lines) + "\n")


_MC_RE = re.compile(r"(\d+) states generated, (\d+) distinct states found, (\d+) states left on queue")


def tlc_mc(module, cfg_path, tag, workers=8, timeout=900, extra_env=None, deadlock=False):
    """Model-check spec/<module>.tla with the given cfg. Returns dict(states, distinct, ok, error, out)."""
    meta = os.path.join(WORK, "meta_" + tag)
    shutil.rmtree(meta, ignore_errors=True)
    cmd = ["timeout", str(timeout), "tlc", "-workers", str(workers), "-metadir", meta, "-cleanup",
           "-noGenerateSpecTE", "-config", cfg_path]
    if deadlock:
        cmd.append("-deadlock")
    cmd.append(os.path.join(SPEC, module + ".tla"))
    env = {"JAVA_TOOL_OPTIONS": "-Xss1g"}
    if extra_env:
        env.update(extra_env)
    t0 = time.time()
    p = sh(cmd, cwd=SPEC, env=env, timeout=timeout + 30, check=False)
    out = p.stdout
    shutil.rmtree(meta, ignore_errors=True)
    m = None
    for m in _MC_RE.finditer(out):
        pass
    res = {"wall_s": round(time.time() - t0, 1), "out": out, "rc": p.returncode}
    if m:
        res.update(generated=int(m.group(1)), distinct=int(m.group(2)), left=int(m.group(3)))
    err = [l for l in out.splitlines() if l.startswith("Error:")]
    res["errors"] = err
    res["ok"] = (p.returncode == 0 and not err and m is not None and int(m.group(3)) == 0)
    if p.returncode == 124:
        res["timeout"] = True
    return res


_TUP_RE = re.compile(r'^<<"(FAIL|DRIFT|DONE|INFO)", "([^"]*)", (\d+)>>$')


def tlc_lines(module, cfg_path, trace_file, tag, timeout=900):
    """Run a line-consuming spec (Trace / Edges / ...) over one ndjson file.
    Returns dict(fails=[(id,line)], drifts=[(id,line)], done=int|None, out)."""
    meta = os.path.join(WORK, "meta_" + tag)
    shutil.rmtree(meta, ignore_errors=True)
    cmd = ["timeout", str(timeout), "tlc", "-workers", "1", "-metadir", meta, "-cleanup",
           "-noGenerateSpecTE", "-config", cfg_path, os.path.join(SPEC, module + ".tla")]
    env = {"JAVA_TOOL_OPTIONS": JAVA_OPTS + " -Xmx3g", "TRACE": trace_file}
    p = sh(cmd, cwd=SPEC, env=env, timeout=timeout + 30, check=False)
    shutil.rmtree(meta, ignore_errors=True)
    fails, drifts, done = [], [], None
    for l in p.stdout.splitlines():
        m = _TUP_RE.match(l.strip())
        if not m:
            continue
        kind, ident, line = m.group(1), m.group(2), int(m.group(3))
        if kind == "FAIL":
            fails.append((ident, line))
        elif kind == "DRIFT":
            drifts.append((ident, line))
        elif kind == "DONE":
            done = line
    err = [l for l in p.stdout.splitlines() if l.startswith("Error:")]
    return {"fails": fails, "drifts": drifts, "done": done, "errors": err, "rc": p.returncode,
            "out": p.stdout}


def count_lines(path):
    n = 0
    with open(path, "rb") as f:
        for _ in f:
            n += 1
    return n


def split_traces(path, nshards, header_lines=0, boundary='"ev":"reset"'):
    """Split an ndjson file into <= nshards files. With a boundary marker (trace files) the cut is
    made only before a line containing the marker; with header_lines (edge files) the header is
    copied into every shard. Returns [(shard_path, first_line_number_in_original)]."""
    with open(path) as f:
        lines = f.readlines()
    header = lines[:header_lines]
    body = lines[header_lines:]
    if not body:
        return []
    target = max(1, (len(body) + nshards - 1) // nshards)
    shards, cur, start = [], [], 0
    for i, l in enumerate(body):
        if len(cur) >= target and (boundary is None or boundary in l):
            shards.append((cur, start))
            cur, start = [], i
        cur.append(l)
    if cur:
        shards.append((cur, start))
    out = []
    for j, (ls, st) in enumerate(shards):
        sp = "%s.s%02d" % (path, j)
        with open(sp, "w") as f:
            f.writelines(header)
            f.writelines(ls)
        # original line number (1-based) of the shard's first body line
        out.append((sp, header_lines + st + 1))
    return out


def validate_file(module, cfg_path, path, tag, nshards=8, header_lines=0, boundary='"ev":"reset"',
                  timeout=900):
    """Shard + validate; line numbers in the result refer to the ORIGINAL file (1-based)."""
    # a TLC process holds its whole shard in memory: keep shards below ~120k lines (more shards than
    # workers are simply queued)
    workers = max(1, nshards)
    total = count_lines(path)
    nshards = max(nshards, -(-total // 120000))
    shards = split_traces(path, nshards, header_lines, boundary)
    res = {"fails": [], "drifts": [], "lines": 0, "errors": [], "shards": len(shards)}

    def run(i_sp):
        i, (sp, first) = i_sp
        r = tlc_lines(module, cfg_path, sp, "%s_%02d" % (tag, i), timeout)
        return i, sp, first, r

    with concurrent.futures.ThreadPoolExecutor(max_workers=workers) as ex:
        for i, sp, first, r in ex.map(run, enumerate(shards)):
            n = count_lines(sp)
            if r["done"] != n or r["errors"]:
                res["errors"].append("shard %s: consumed %s of %d lines; %s" %
                                     (sp, r["done"], n, "; ".join(r["errors"][:3]) or r["out"][-1500:]))
            off = first - header_lines - 1   # shard line L (1-based, incl. header) -> original L + off
            res["fails"] += [(i_, l + off) for (i_, l) in r["fails"]]
            res["drifts"] += [(i_, l + off) for (i_, l) in r["drifts"]]
            res["lines"] += n - header_lines
            os.remove(sp)
    return res


# ---------------------------------------------------------------------------------------------
# replay files
# ---------------------------------------------------------------------------------------------

def extract_trace(path, line_no, out_path):
    """Copy the trace (from its reset line up to line_no) containing line_no into out_path."""
    with open(path) as f:
        lines = f.readlines()
    i = line_no - 1
    start = i
    while start > 0 and '"ev":"reset"' not in lines[start]:
        start -= 1
    end = i
    # include the rest of the trace for context
    while end + 1 < len(lines) and '"ev":"reset"' not in lines[end + 1]:
        end += 1
    os.makedirs(os.path.dirname(out_path), exist_ok=True)
    with open(out_path, "w") as f:
        f.writelines(lines[start:end + 1])
    return line_no - start  # line number within the extracted file


def extract_edge(path, line_no, out_path):
    with open(path) as f:
        lines = f.readlines()
    os.makedirs(os.path.dirname(out_path), exist_ok=True)
    with open(out_path, "w") as f:
        f.write(lines[0])
        f.write(lines[line_no - 1])
    return 2


# ---------------------------------------------------------------------------------------------
# known findings
# ---------------------------------------------------------------------------------------------

def load_known():
    p = os.path.join(VERIF, "known_findings.json")
    if not os.path.exists(p):
        return {"known": [], "fixed": []}
    return json.load(open(p))


# ---------------------------------------------------------------------------------------------
# evidence
# ---------------------------------------------------------------------------------------------

def write_evidence(pid, tier, seed, coverage, wall_s, violations, assumptions):
    os.makedirs(EVID, exist_ok=True)
    ev = {"property_id": pid, "tier": tier, "seed": int(seed), "level": "model_checking",
          "coverage": coverage, "assumptions": assumptions, "wall_s": round(wall_s, 1),
          "violations": int(violations)}
    with open(os.path.join(EVID, pid + ".json"), "w") as f:
        json.dump(ev, f, indent=1, sort_keys=True)
    return ev
