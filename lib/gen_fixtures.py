#!/usr/bin/env python3
"""Generate harness/src/fixtures_gen.rs: the corpus of #[cache] / #[cache_async] functions the
macro-level drivers call. One table row per fixture:
   name, kind (sync|thread|async), attrs (macro attribute text), ret (i64|res|res_std|str|res_str)
The bodies call back into the harness (crate::macrodrv::body): execution counter, scripted outcome,
versioned values. The table is also emitted as JSON (fixtures.json) so that the orchestrator and the
trace specification know each fixture's configuration as WRITTEN in the attribute list.
"""
import json, sys, os

ROWS = []


def row(name, kind, ret="i64", limit=0, policy=None, ttl=0, maxmem=0, maxmem_txt=None, w=None,
        cif=False, inv=False, tags=(), events=(), deps=(), alias=None, awaits=0, sig="k", scope_txt=None,
        corpus=False, tla=None, early_return=False):
    ROWS.append(dict(name=name, kind=kind, ret=ret, limit=limit, policy=policy, ttl=ttl, maxmem=maxmem,
                     maxmem_txt=maxmem_txt, w=w, cif=cif, inv=inv, tags=list(tags), events=list(events),
                     deps=list(deps), alias=alias, awaits=awaits, sig=sig, scope_txt=scope_txt, corpus=corpus,
                     tla=tla, early_return=early_return))


POL = ["fifo", "lru", "lfu", "arc", "random", "tlru"]
for kind, pre in (("sync", "s"), ("thread", "t"), ("async", "a")):
    row(pre + "_plain", kind)                                   # C03: nothing configured
    row(pre + "_plain_ret", kind, early_return=True)            # ... result produced by an explicit `return`
    row(pre + "_plain_long", kind, sig="long")                  # ... with a key of more than 64 bytes
    row(pre + "_lru2_long", kind, sig="long", limit=2, policy="lru")
    row(pre + "_res_ret", kind, ret="res", early_return=True, limit=2, policy="lru")
    for p in POL:
        row("%s_%s2" % (pre, p), kind, limit=2, policy=p)
        row("%s_%s3_ttl2" % (pre, p), kind, limit=3, policy=p, ttl=2)
    # a policy without any bound (nothing is ever evicted, the recency / frequency bookkeeping is idle)
    for p in POL[1:]:
        row("%s_%s_unb" % (pre, p), kind, policy=p)
    # a value whose Clone is a scheduling point of the cooperative scheduler: what the library does while
    # it clones a cached value (e.g. under a DashMap shard guard or the map's read lock) can be interleaved
    row(pre + "_yield", kind, ret="y")
    row(pre + "_yield_lru2", kind, ret="y", limit=2, policy="lru")
    row(pre + "_ttl1", kind, ttl=1)
    row(pre + "_tlru2_ttl3_w03", kind, limit=2, policy="tlru", ttl=3, w="0.3")
    row(pre + "_tlru3_w15", kind, limit=3, policy="tlru", w="1.5")
    # Result-returning
    row(pre + "_res", kind, ret="res")
    row(pre + "_res_lru2", kind, ret="res", limit=2, policy="lru")
    row(pre + "_res_lfu2", kind, ret="res", limit=2, policy="lfu")
    row(pre + "_res_std", kind, ret="res_std", limit=2, policy="fifo")
    row(pre + "_res_ttl2", kind, ret="res", limit=2, policy="lru", ttl=2)
    # Result combined with invalidate_on (no cache_if): a refresh that fails must not be stored
    row(pre + "_res_inv", kind, ret="res", inv=True)
    row(pre + "_res_inv_lru2", kind, ret="res", inv=True, limit=2, policy="lru")
    row(pre + "_cif_ttl2", kind, cif=True, limit=2, policy="fifo", ttl=2)
    # cache_if
    row(pre + "_cif", kind, cif=True)
    row(pre + "_cif_lru2", kind, cif=True, limit=2, policy="lru")
    row(pre + "_res_cif", kind, ret="res", cif=True)
    # invalidate_on
    row(pre + "_inv", kind, inv=True)
    row(pre + "_inv_lru2", kind, inv=True, limit=2, policy="lru")
    row(pre + "_inv_lfu2", kind, inv=True, limit=2, policy="lfu")
    row(pre + "_inv_arc2", kind, inv=True, limit=2, policy="arc")
    row(pre + "_inv_tlru3_ttl3", kind, inv=True, limit=3, policy="tlru", ttl=3, w="1.5")
    row(pre + "_inv_random2", kind, inv=True, limit=2, policy="random")
    row(pre + "_inv_ttl2", kind, inv=True, ttl=2)
    row(pre + "_inv_cif", kind, inv=True, cif=True)
    row(pre + "_inv_mem", kind, ret="str", inv=True, maxmem=100, policy="lru")
    row(pre + "_cif_mem", kind, ret="str", cif=True, maxmem=100, policy="fifo")
    # memory-limited (String values: 24 bytes inline + len)
    row(pre + "_mem_fifo", kind, ret="str", maxmem=100, policy="fifo")
    row(pre + "_mem_lru", kind, ret="str", maxmem=100, policy="lru")
    row(pre + "_mem_lfu", kind, ret="str", maxmem=100, policy="lfu")
    row(pre + "_mem_arc_l3", kind, ret="str", maxmem=120, policy="arc", limit=3)
    row(pre + "_mem_rand", kind, ret="str", maxmem=100, policy="random")
    row(pre + "_mem_tlru_ttl2", kind, ret="str", maxmem=100, policy="tlru", ttl=2)
    row(pre + "_res_mem_lru", kind, ret="res_str", maxmem=100, policy="lru")
    row(pre + "_mem_kb", kind, ret="str", maxmem=1024, maxmem_txt='"1KB"', policy="fifo")

# thread scope combined with invalidation metadata (the metadata is inert, the scope must stay)
row("t_tags", "thread", tags=["tz"], events=["ez"], limit=2, policy="lru")
row("t_deps", "thread", deps=["g_a"])
# invalidation groups (global + async only): tags / events / dependencies / names
row("g_a", "sync", tags=["ta"], limit=3, policy="lru")
row("g_ab", "sync", tags=["ta", "tb"], events=["ea"])
row("g_dep", "async", deps=["g_a"], tags=["tb"], limit=3, policy="fifo")
row("g_ev", "async", events=["ea", "eb"])
row("g_none", "sync")
row("g_none_async", "async")
row("g_alias", "sync", tags=["tc"], alias="alias_one", limit=2, policy="lfu")
row("g_alias_async", "async", events=["eb"], alias="alias_two")
row("g_mem", "sync", ret="str", tags=["tb"], maxmem=100, policy="lru")
# a function that names itself (and another one) among its dependencies
row("g_self", "sync", deps=["g_self"], tags=["ta"], limit=3, policy="fifo")
row("g_self_async", "async", deps=["g_self_async", "g_a"], events=["ea"])
# the same label used for different KINDS of grouping by different functions (a tag of one is an event /
# a dependency of another; a tag equal to another function's cache name; labels crossed with g_a / g_ab)
row("g_x1", "sync", tags=["x"], limit=3, policy="lru")
row("g_x2", "async", events=["x"])
row("g_x3", "sync", deps=["x"], tags=["g_x1"])
row("g_x4", "async", tags=["ea"], events=["ta"], limit=3, policy="fifo")
# labels that differ only in letter case or surrounding blanks: a request names a label verbatim, no
# normalisation may make it miss its own cache (or count a different label's cache)
row("g_u1", "sync", tags=["Ta", " tb"], events=["OrderPlaced", "ea "], limit=3, policy="lru")
row("g_u2", "async", tags=["TA"], events=["orderplaced", "Ea"], deps=["G_A"])
# async bodies with await points (C20)
row("a_await1_arc", "async", awaits=1, limit=2, policy="arc")
row("a_await2_tlru_ttl3", "async", awaits=2, limit=2, policy="tlru", ttl=3)
row("a_await1_inv", "async", awaits=1, limit=2, policy="lru", inv=True)
row("a_await1", "async", awaits=1, limit=2, policy="lru")
row("a_await2_ttl2", "async", awaits=2, ttl=2, limit=2, policy="fifo")
row("a_await3_res", "async", awaits=3, ret="res", limit=2, policy="lfu")
row("a_await2_mem", "async", awaits=2, ret="str", maxmem=100, policy="lru")


# ---- C19 corpus: covering array over attribute values x signature shapes
sys.path.insert(0, os.path.dirname(os.path.abspath(__file__)))
import attr_corpus
CORPUS = attr_corpus.covering(7)
_extra = [r for r in attr_corpus.covering(11) if r["macro"] == "async"][:30]
CORPUS += _extra
ATTR_ROWS = []
for i, r in enumerate(CORPUS):
    nm = "x%03d" % i
    exp = attr_corpus.expectation(r)
    kind = exp["cfg"]["flavour"]
    tla = attr_corpus.tla_row(r, nm, exp)
    ATTR_ROWS.append(tla)
    row(nm, kind, ret=r["ret"], limit=r["limit"][1], policy=r["policy"][1] or None, ttl=r["ttl"][1],
        maxmem=exp["cfg"]["maxmem"], maxmem_txt=r["maxmem"][2], w=r["weight"][2],
        cif=r["preds"] in ("cif", "both"), inv=r["preds"] in ("inv", "both"),
        tags=["tx"] if r["meta"] == "tags" else (), events=["ex"] if r["meta"] == "events_deps" else (),
        deps=["g_a"] if r["meta"] == "events_deps" else (), alias=("custom_" + nm) if r["name"] == "custom" else None,
        sig=r["sig"], scope_txt=(r["scope"][1] if r["scope"][0] == "str" else None), corpus=True, tla=tla)


def attr_text(r):
    a = []
    if r["limit"]:
        a.append("limit = %d" % r["limit"])
    if r["policy"]:
        a.append('policy = "%s"' % r["policy"])
    if r["ttl"]:
        a.append("ttl = %d" % r["ttl"])
    if r.get("scope_txt"):
        a.append('scope = "%s"' % r["scope_txt"])
    elif r["kind"] == "thread":
        a.append('scope = "thread"')
    if r["maxmem"]:
        a.append("max_memory = %s" % (r["maxmem_txt"] or str(r["maxmem"])))
    if r["w"]:
        a.append("frequency_weight = %s" % r["w"])
    if r["alias"]:
        a.append('name = "%s"' % r["alias"])
    if r["tags"]:
        a.append("tags = [%s]" % ", ".join('"%s"' % t for t in r["tags"]))
    if r["events"]:
        a.append("events = [%s]" % ", ".join('"%s"' % t for t in r["events"]))
    if r["deps"]:
        a.append("dependencies = [%s]" % ", ".join('"%s"' % t for t in r["deps"]))
    if r["inv"]:
        a.append("invalidate_on = inv_%s" % r["name"])
    if r["cif"]:
        a.append("cache_if = cif_%s" % r["name"])
    return ", ".join(a)


RET_TY = {"y": "Y", "i64": "i64", "res": "Result<i64, String>", "res_std": "std::result::Result<i64, String>",
          "str": "String", "res_str": "Result<String, String>"}


# signature shapes: (parameter list, expression for the key number inside the body, -, method?, -)
SIGS = {
    "k": ("k: u32", "k", "", False, ""),
    "zero": ("", "0", "", False, ""),
    "two": ("a: u32, b: String", "{ let _ = &b; a }", "", False, ""),
    "four": ("a: u32, b: bool, c: i64, d: String", "{ let _ = (b, c, &d); a }", "", False, ""),
    # a key of more than 64 bytes (compaction / hashing / truncation of long keys)
    "long": ("a: u32, b: String", "{ let _ = &b; a }", "", False, ""),
    "mref": ("&self, k: u32", "{ let _ = self.id; k }", "", True, ""),
    "mmut": ("&mut self", "self.id", "", True, ""),
    "mval": ("self, k: u32, s: &str", "{ let _ = (self.id, s); k }", "", True, ""),
}
CALLS = {
    "k": "{f}(k)", "zero": "{f}()", "two": "{f}(k, format!(\"s{{}}\", k))",
    "four": "{f}(k, k % 2 == 0, k as i64 + 100, format!(\"x|y{{}}\", k))",
    "long": "{f}(k, format!(\"LLLLLLLLLLLLLLLLLLLLLLLLLLLLLLLLLLLLLLLLLLLLLLLLLLLLLLLLLLLLLLLLLLLLLL{{}}\", k))",
    "mref": "Obj {{ id: 7 }}.{f}(k)", "mmut": "Obj {{ id: k }}.{f}()", "mval": "Obj {{ id: 7 }}.{f}(k, \"z\")",
}
KEYFMT = {
    "k": "{k}", "zero": "", "two": "{k}|\"s{k}\"", "four": "{k}|{e}|{n}|\"x|y{k}\"",
    "long": "{k}|\"LLLLLLLLLLLLLLLLLLLLLLLLLLLLLLLLLLLLLLLLLLLLLLLLLLLLLLLLLLLLLLLLLLLLLL{k}\"",
    "mref": "Obj { id: 7 }|{k}", "mmut": "Obj { id: {k} }", "mval": "Obj { id: 7 }|{k}|\"z\"",
}


def conv_expr(ret):
    return {"y": "raw_y(r)", "i64": "raw_i64(r)", "res": "raw_res(r)", "res_std": "raw_res(r)", "str": "raw_str(r)",
            "res_str": "raw_res_str(r)"}[ret]


def out_expr(ret):
    return {"y": "out_y(&v)", "i64": "out_i64(&v)", "res": "out_res(&v)", "res_std": "out_res(&v)", "str": "out_str(&v)",
            "res_str": "out_res_str(&v)"}[ret]


def gen_rs(rows, header_extra, sync_fn, async_fn, fallthrough):
    L = ["// GENERATED by lib/gen_fixtures.py -- do not edit.",
         "#![allow(non_snake_case, unused_imports, dead_code, clippy::all)]",
         "use crate::macrodrv::*;", "use cachelito::cache;", "use cachelito_async::cache_async;", ""] + header_extra
    for r in rows:
        n, ty = r["name"], RET_TY[r["ret"]]
        if r["inv"]:
            L.append("fn inv_%s(key: &String, v: &%s) -> bool { let v = v.clone(); consult_inv(\"%s\", key, %s) }"
                     % (n, ty, n, out_expr(r["ret"])))
        if r["cif"]:
            L.append("fn cif_%s(key: &String, v: &%s) -> bool { let v = v.clone(); consult_cif(\"%s\", key, %s) }"
                     % (n, ty, n, out_expr(r["ret"])))
        at = attr_text(r)
        is_async = r["kind"] == "async"
        mac = ("#[cache_async(%s)]" % at if at else "#[cache_async]") if is_async else ("#[cache(%s)]" % at if at else "#[cache]")
        aw = "".join("    gate(\"%s\", %d).await;\n" % (n, i + 1) for i in range(r["awaits"]))
        params, kexpr, indent, open_impl, close_impl = SIGS[r["sig"]]
        if r.get("early_return"):
            # the result leaves the body through an explicit `return` on odd keys (guard-clause style)
            tail = "    let __v = %s;\n    if __odd {\n        return __v;\n    }\n    __v" % conv_expr(r["ret"])
            fn = "pub %sfn %s(%s) -> %s {\n    let r = body(\"%s\", %s);\n    let __odd = r.ver %% 2 == 1 || true;\n%s%s\n}" % (
                "async " if is_async else "", n, params, ty, n, kexpr, aw, tail)
        else:
            fn = "pub %sfn %s(%s) -> %s {\n    let r = body(\"%s\", %s);\n%s    %s\n}" % (
                "async " if is_async else "", n, params, ty, n, kexpr, aw, conv_expr(r["ret"]))
        if open_impl:
            L += ["impl Obj {", mac, fn, "}"]
        else:
            L += [mac, fn]
        L.append("")
    L.append("pub fn %s(name: &str, k: u32) -> Option<Out> {" % sync_fn)
    L.append("    match name {")
    for r in rows:
        if r["kind"] != "async":
            L.append("        \"%s\" => { let v = %s; Some(%s) }" % (r["name"], CALLS[r["sig"]].format(f=r["name"]), out_expr(r["ret"])))
    L.append("        _ => %s,\n    }\n}\n" % fallthrough[0])
    L.append("pub fn %s(name: &str, k: u32) -> Option<std::pin::Pin<Box<dyn std::future::Future<Output = Out>>>> {" % async_fn)
    L.append("    match name {")
    for r in rows:
        if r["kind"] == "async":
            L.append("        \"%s\" => Some(Box::pin(async move { let v = %s.await; %s }))," %
                     (r["name"], CALLS[r["sig"]].format(f=r["name"]), out_expr(r["ret"])))
    L.append("        _ => %s,\n    }\n}\n" % fallthrough[1])
    return "\n".join(L) + "\n"


def gen(out_rs, out_json):
    base = [r for r in ROWS if not r["corpus"]]
    corpus = [r for r in ROWS if r["corpus"]]
    obj = ["#[derive(Debug, Clone, Copy)]", "pub struct Obj { pub id: u32 }",
           "impl cachelito_core::DefaultCacheableKey for Obj {}", ""]
    open(out_rs, "w").write(gen_rs(base, obj, "call_sync", "call_async",
                                   ("crate::corpus_gen::call_sync(name, k)", "crate::corpus_gen::call_async(name, k)")))
    open(os.path.join(os.path.dirname(out_rs), "corpus_gen_real.rs"), "w").write(
        gen_rs(corpus, ["use crate::fixtures_gen::Obj;", ""], "call_sync", "call_async", ("None", "None")))
    L = []
    table = []
    for r in ROWS:
        table.append(dict(name=r["name"], cache_name=r["alias"] or r["name"], kind=r["kind"], ret=r["ret"],
                          isResult=r["ret"] in ("res", "res_std", "res_str"), hasCif=r["cif"], hasInv=r["inv"],
                          tags=r["tags"], events=r["events"], deps=r["deps"], awaits=r["awaits"],
                          attrs=attr_text(r), keyfmt=KEYFMT[r["sig"]], sig=r["sig"], corpus=r["corpus"],
                          cfg=dict(flavour=r["kind"], policy=r["policy"] or "fifo", limit=r["limit"],
                                   ttl=r["ttl"], maxmem=r["maxmem"], w=r["w"] or "none")))
    json.dump(table, open(out_json, "w"), indent=1)
    # layouts of the single-function fixtures as a TLA+ set (input of SystemSim.tla: TLC picks a real
    # fixture's configuration and generates behaviours for it)
    def tq(xs):
        return "<<" + ", ".join('"%s"' % x for x in xs) + ">>"
    lay = []
    for t in table:
        if t.get("corpus") or t["awaits"] or t["name"].startswith("g_") or t["name"].startswith("t_tags") or t["name"].startswith("t_deps"):
            continue
        c = t["cfg"]
        lay.append('  [fx |-> "%s", cfg |-> [flavour |-> "%s", policy |-> "%s", limit |-> %d, ttl |-> %d, maxmem |-> %d, w |-> "%s"],\n'
                   '   meta |-> [fixture |-> "%s", cacheName |-> "%s", kind |-> "%s", isResult |-> %s, hasCif |-> %s, hasInv |-> %s,\n'
                   '             stats |-> %s, tags |-> %s, events |-> %s, deps |-> %s, warm |-> FALSE], extra |-> %d]'
                   % (t["name"], c["flavour"], c["policy"], c["limit"], c["ttl"], c["maxmem"], c["w"], t["name"], t["cache_name"],
                      t["kind"], str(t["isResult"]).upper(), str(t["hasCif"]).upper(), str(t["hasInv"]).upper(),
                      str(t["kind"] != "thread").upper(), tq(t["tags"]), tq(t["events"]), tq(t["deps"]),
                      8 if t["ret"] == "res_str" else 0))
    open(os.path.join(os.path.dirname(os.path.dirname(out_json)), "spec", "FixtureLayouts.tla"), "w").write(
        "---- MODULE FixtureLayouts ----\n\\* GENERATED by lib/gen_fixtures.py -- do not edit.\n"
        "\\* configuration and wrapper attributes of the single-function fixtures of the harness\n"
        "FixtureLayouts == {\n" + ",\n".join(lay) + "\n}\n====\n")
    with open(os.path.join(os.path.dirname(out_json), "attr_rows.ndjson"), "w") as f:
        for t in ATTR_ROWS:
            f.write(json.dumps(t) + "\n")
        for b in attr_corpus.invalid_rows():
            f.write(json.dumps(b["tla"]) + "\n")


if __name__ == "__main__":
    base = os.path.dirname(os.path.dirname(os.path.abspath(__file__)))
    gen(os.path.join(base, "harness", "src", "fixtures_gen.rs"), os.path.join(base, "harness", "fixtures.json"))
    print("fixtures:", len(ROWS))
