#!/usr/bin/env python3
"""Generate harness/src/fixtures_gen.rs: the corpus of #[cache] / #[cache_async] functions the
macro-level drivers call. One table row per fixture:
   name, kind (sync|thread|async), attrs (macro attribute text), ret (i64|res|res_std|str|res_str)
The bodies call back into the harness (crate::macrodrv::body): execution counter, scripted outcome,
versioned values. The table is also emitted as JSON (fixtures.json) so that the orchestrator and the
trace specification know each fixture's configuration as WRITTEN in the attribute list.
"""
import json, sys, os

ROWS = []


def row(name, kind, ret="i64", limit=0, policy=None, ttl=0, maxmem=0, maxmem_txt=None, w=None,
        cif=False, inv=False, tags=(), events=(), deps=(), alias=None, awaits=0):
    ROWS.append(dict(name=name, kind=kind, ret=ret, limit=limit, policy=policy, ttl=ttl, maxmem=maxmem,
                     maxmem_txt=maxmem_txt, w=w, cif=cif, inv=inv, tags=list(tags), events=list(events),
                     deps=list(deps), alias=alias, awaits=awaits))


POL = ["fifo", "lru", "lfu", "arc", "random", "tlru"]
for kind, pre in (("sync", "s"), ("thread", "t"), ("async", "a")):
    row(pre + "_plain", kind)                                   # C03: nothing configured
    for p in POL:
        row("%s_%s2" % (pre, p), kind, limit=2, policy=p)
        row("%s_%s3_ttl2" % (pre, p), kind, limit=3, policy=p, ttl=2)
    row(pre + "_ttl1", kind, ttl=1)
    row(pre + "_tlru2_ttl3_w03", kind, limit=2, policy="tlru", ttl=3, w="0.3")
    row(pre + "_tlru3_w15", kind, limit=3, policy="tlru", w="1.5")
    # Result-returning
    row(pre + "_res", kind, ret="res")
    row(pre + "_res_lru2", kind, ret="res", limit=2, policy="lru")
    row(pre + "_res_lfu2", kind, ret="res", limit=2, policy="lfu")
    row(pre + "_res_std", kind, ret="res_std", limit=2, policy="fifo")
    row(pre + "_res_ttl2", kind, ret="res", limit=2, policy="lru", ttl=2)
    row(pre + "_cif_ttl2", kind, cif=True, limit=2, policy="fifo", ttl=2)
    # cache_if
    row(pre + "_cif", kind, cif=True)
    row(pre + "_cif_lru2", kind, cif=True, limit=2, policy="lru")
    row(pre + "_res_cif", kind, ret="res", cif=True)
    # invalidate_on
    row(pre + "_inv", kind, inv=True)
    row(pre + "_inv_lru2", kind, inv=True, limit=2, policy="lru")
    row(pre + "_inv_ttl2", kind, inv=True, ttl=2)
    row(pre + "_inv_cif", kind, inv=True, cif=True)
    row(pre + "_inv_mem", kind, ret="str", inv=True, maxmem=100, policy="lru")
    row(pre + "_cif_mem", kind, ret="str", cif=True, maxmem=100, policy="fifo")
    # memory-limited (String values: 24 bytes inline + len)
    row(pre + "_mem_fifo", kind, ret="str", maxmem=100, policy="fifo")
    row(pre + "_mem_lru", kind, ret="str", maxmem=100, policy="lru")
    row(pre + "_mem_lfu", kind, ret="str", maxmem=100, policy="lfu")
    row(pre + "_mem_arc_l3", kind, ret="str", maxmem=120, policy="arc", limit=3)
    row(pre + "_mem_rand", kind, ret="str", maxmem=100, policy="random")
    row(pre + "_mem_tlru_ttl2", kind, ret="str", maxmem=100, policy="tlru", ttl=2)
    row(pre + "_res_mem_lru", kind, ret="res_str", maxmem=100, policy="lru")
    row(pre + "_mem_kb", kind, ret="str", maxmem=1024, maxmem_txt='"1KB"', policy="fifo")

# thread scope combined with invalidation metadata (the metadata is inert, the scope must stay)
row("t_tags", "thread", tags=["tz"], events=["ez"], limit=2, policy="lru")
row("t_deps", "thread", deps=["g_a"])
# invalidation groups (global + async only): tags / events / dependencies / names
row("g_a", "sync", tags=["ta"], limit=3, policy="lru")
row("g_ab", "sync", tags=["ta", "tb"], events=["ea"])
row("g_dep", "async", deps=["g_a"], tags=["tb"], limit=3, policy="fifo")
row("g_ev", "async", events=["ea", "eb"])
row("g_none", "sync")
row("g_none_async", "async")
row("g_alias", "sync", tags=["tc"], alias="alias_one", limit=2, policy="lfu")
row("g_alias_async", "async", events=["eb"], alias="alias_two")
row("g_mem", "sync", ret="str", tags=["tb"], maxmem=100, policy="lru")
# a function that names itself (and another one) among its dependencies
row("g_self", "sync", deps=["g_self"], tags=["ta"], limit=3, policy="fifo")
row("g_self_async", "async", deps=["g_self_async", "g_a"], events=["ea"])
# async bodies with await points (C20)
row("a_await1", "async", awaits=1, limit=2, policy="lru")
row("a_await2_ttl2", "async", awaits=2, ttl=2, limit=2, policy="fifo")
row("a_await3_res", "async", awaits=3, ret="res", limit=2, policy="lfu")
row("a_await2_mem", "async", awaits=2, ret="str", maxmem=100, policy="lru")


def attr_text(r):
    a = []
    if r["limit"]:
        a.append("limit = %d" % r["limit"])
    if r["policy"]:
        a.append('policy = "%s"' % r["policy"])
    if r["ttl"]:
        a.append("ttl = %d" % r["ttl"])
    if r["kind"] == "thread":
        a.append('scope = "thread"')
    if r["maxmem"]:
        a.append("max_memory = %s" % (r["maxmem_txt"] or str(r["maxmem"])))
    if r["w"]:
        a.append("frequency_weight = %s" % r["w"])
    if r["alias"]:
        a.append('name = "%s"' % r["alias"])
    if r["tags"]:
        a.append("tags = [%s]" % ", ".join('"%s"' % t for t in r["tags"]))
    if r["events"]:
        a.append("events = [%s]" % ", ".join('"%s"' % t for t in r["events"]))
    if r["deps"]:
        a.append("dependencies = [%s]" % ", ".join('"%s"' % t for t in r["deps"]))
    if r["inv"]:
        a.append("invalidate_on = inv_%s" % r["name"])
    if r["cif"]:
        a.append("cache_if = cif_%s" % r["name"])
    return ", ".join(a)


RET_TY = {"i64": "i64", "res": "Result<i64, String>", "res_std": "std::result::Result<i64, String>",
          "str": "String", "res_str": "Result<String, String>"}


def conv_expr(ret):
    return {"i64": "raw_i64(r)", "res": "raw_res(r)", "res_std": "raw_res(r)", "str": "raw_str(r)",
            "res_str": "raw_res_str(r)"}[ret]


def out_expr(ret):
    return {"i64": "out_i64(&v)", "res": "out_res(&v)", "res_std": "out_res(&v)", "str": "out_str(&v)",
            "res_str": "out_res_str(&v)"}[ret]


def gen(out_rs, out_json):
    L = ["// GENERATED by lib/gen_fixtures.py -- do not edit.",
         "#![allow(non_snake_case, unused_imports, dead_code, clippy::all)]",
         "use crate::macrodrv::*;", "use cachelito::cache;", "use cachelito_async::cache_async;", ""]
    for r in ROWS:
        n, ty = r["name"], RET_TY[r["ret"]]
        if r["inv"]:
            L.append("fn inv_%s(key: &String, v: &%s) -> bool { let v = v.clone(); consult_inv(\"%s\", key, %s) }"
                     % (n, ty, n, out_expr(r["ret"])))
        if r["cif"]:
            L.append("fn cif_%s(key: &String, v: &%s) -> bool { let v = v.clone(); consult_cif(\"%s\", key, %s) }"
                     % (n, ty, n, out_expr(r["ret"])))
        at = attr_text(r)
        if r["kind"] == "async":
            L.append("#[cache_async(%s)]" % at if at else "#[cache_async]")
            aw = "".join("    gate(\"%s\", %d).await;\n" % (n, i + 1) for i in range(r["awaits"]))
            L.append("pub async fn %s(k: u32) -> %s {\n    let r = body(\"%s\", k);\n%s    %s\n}" %
                     (n, ty, n, aw, conv_expr(r["ret"])))
        else:
            L.append("#[cache(%s)]" % at if at else "#[cache]")
            L.append("pub fn %s(k: u32) -> %s {\n    let r = body(\"%s\", k);\n    %s\n}" %
                     (n, ty, n, conv_expr(r["ret"])))
        L.append("")
    # dispatchers
    L.append("pub fn call_sync(name: &str, k: u32) -> Option<Out> {")
    L.append("    match name {")
    for r in ROWS:
        if r["kind"] != "async":
            L.append("        \"%s\" => { let v = %s(k); Some(%s) }" % (r["name"], r["name"], out_expr(r["ret"])))
    L.append("        _ => None,\n    }\n}\n")
    L.append("pub fn call_async(name: &str, k: u32) -> Option<std::pin::Pin<Box<dyn std::future::Future<Output = Out>>>> {")
    L.append("    match name {")
    for r in ROWS:
        if r["kind"] == "async":
            L.append("        \"%s\" => Some(Box::pin(async move { let v = %s(k).await; %s }))," %
                     (r["name"], r["name"], out_expr(r["ret"])))
    L.append("        _ => None,\n    }\n}\n")
    open(out_rs, "w").write("\n".join(L) + "\n")
    table = []
    for r in ROWS:
        table.append(dict(name=r["name"], cache_name=r["alias"] or r["name"], kind=r["kind"], ret=r["ret"],
                          isResult=r["ret"] in ("res", "res_std", "res_str"), hasCif=r["cif"], hasInv=r["inv"],
                          tags=r["tags"], events=r["events"], deps=r["deps"], awaits=r["awaits"],
                          attrs=attr_text(r),
                          cfg=dict(flavour=r["kind"], policy=r["policy"] or "fifo", limit=r["limit"],
                                   ttl=r["ttl"], maxmem=r["maxmem"], w=r["w"] or "none")))
    json.dump(table, open(out_json, "w"), indent=1)


if __name__ == "__main__":
    base = os.path.dirname(os.path.dirname(os.path.abspath(__file__)))
    gen(os.path.join(base, "harness", "src", "fixtures_gen.rs"), os.path.join(base, "harness", "fixtures.json"))
    print("fixtures:", len(ROWS))
