"""Argument tuples for the key-construction check (C02): the bounded domains that KeysMC.tla proves
injective (same definitions), plus seeded adversarial random tuples beyond the modelled alphabet."""
import itertools, json, random, struct

ALPH = {"adv5": ["a", "|", "\"", "\\", "'"],
        "adv7": ["a", "|", "\"", "\\", "'", " ", ","],
        "adv9": ["a", "|", "\"", "\\", "'", " ", ",", "\n", "b"]}


def I(v): return {"t": "int", "v": v}
def B(v): return {"t": "bool", "v": v}
def C(c): return {"t": "char", "c": c}
def S(cs): return {"t": "str", "cs": list(cs)}
UNIT = {"t": "tup", "xs": []}
def Opt(b, v): return {"t": "opt", "some": b, "v": v if b else UNIT}
def V(xs): return {"t": "vec", "xs": list(xs)}
def T(xs): return {"t": "tup", "xs": list(xs)}
def Pt(x, tag): return {"t": "struct", "name": "Pt", "fields": [{"n": "x", "v": I(x)}, {"n": "tag", "v": S(tag)}]}
def W(s): return {"t": "tstruct", "name": "W", "xs": [S(s)]}
def En(n): return {"t": "struct", "name": n, "fields": []}      # a unit-like enum variant renders as its name


def strs(alpha, n):
    out = []
    for m in range(n + 1):
        out += list(itertools.product(alpha, repeat=m))
    return out


def seqs(base, n):
    out = []
    for m in range(n + 1):
        out += list(itertools.product(base, repeat=m))
    return out


def domains(alpha_id, maxlen2, maxlen3, int_lo_neg, int_hi):
    A = ALPH[alpha_id]
    ints = range(-int_lo_neg, int_hi + 1)
    small = [-1, 0, 1, 12]
    S1, S2, S3 = strs(A, 1), strs(A, maxlen2), strs(A, maxlen3)
    iseqs = seqs(small, 2)
    D = {}
    D["i_i"] = [[I(a), I(b)] for a in ints for b in ints]
    D["s"] = [[S(a)] for a in strs(A, maxlen2 + 1)]
    D["s_s"] = [[S(a), S(b)] for a in S2 for b in S2]
    D["s_s_s"] = [[S(a), S(b), S(c)] for a in S3 for b in S3 for c in S3]
    D["rs_c"] = [[S(a), C(c)] for a in S2 for c in A]
    D["b_oi"] = [[B(b), Opt(o, I(i))] for b in (False, True) for (o, i) in ([(False, 0)] + [(True, i) for i in small])]
    D["vi_vi"] = [[V(I(x) for x in a), V(I(x) for x in b)] for a in iseqs for b in iseqs]
    D["vs"] = [[V(S(x) for x in a)] for a in seqs(S1, 3)]
    D["t_i"] = [[T([I(a), S(b)]), I(c)] for a in small for b in S2 for c in small]
    D["os_s"] = [[Opt(o, S(a)), S(b)] for (o, a) in ([(False, ())] + [(True, a) for a in S2]) for b in S2]
    D["sl"] = [[V(I(x) for x in a)] for a in seqs(small, 3)]
    D["m_pt"] = [[Pt(x, tag), I(a)] for x in small for tag in S2 for a in small]
    D["m_w"] = [[W(a), S(b)] for a in S2 for b in S2]
    D["m_en_en"] = [[En(a), En(b)] for a in ("A", "AB", "ABC") for b in ("B", "BC", "C", "CB")]
    D["m_u_u_u"] = [[I(a), I(b), I(c)] for a in (1, 7, 71, 11, 112) for b in (1, 11, 12, 2) for c in (1, 2, 12)]
    D["five"] = [[I(a), I(b), S(c), C(d), B(e)] for a in (0, 7, 77) for b in (-7, 7) for c in S2 for d in A
                 for e in (False, True)]
    return D


ADV_CHARS = ["|", "\"", "\\", "'", ",", " ", "(", ")", "[", "]", "{", "}", ":", "a", "A", "Z", "z", "0", "\n", "\t", "\r",
             "é", "中", "\u0007", "​", "\U0001F600", "S", "o", "m", "e", "N"]
MODELLED = set(["|", "\"", "\\", "'", ",", " ", "(", ")", "[", "]", "{", "}", ":", "a", "A", "Z", "z", "0", "\n", "\t", "\r", "x", "y",
                "S", "o", "m", "e", "N"])


def rstr(rng, maxlen=5):
    return tuple(rng.choice(ADV_CHARS) for _ in range(rng.randint(0, maxlen)))


def modelled(parts):
    s = json.dumps(parts)
    return all((c in MODELLED) for p in _chars(parts) for c in p)


def _chars(x):
    if isinstance(x, dict):
        if x.get("t") == "str":
            return list(x["cs"])
        if x.get("t") == "char":
            return [x["c"]]
        out = []
        for v in x.values():
            out += _chars(v)
        return out
    if isinstance(x, list):
        out = []
        for v in x:
            out += _chars(v)
        return out
    return []


def fbits(f):
    return str(struct.unpack("<Q", struct.pack("<d", f))[0])


def random_tuples(rng, n):
    """{sig: [parts, ...]} adversarial random tuples (strings near-collisions: shifting the separator,
    quotes and escapes between neighbouring arguments)."""
    D = {k: [] for k in ("i_i", "s", "s_s", "s_s_s", "rs_c", "b_oi", "vi_vi", "vs", "t_i", "os_s", "sl", "m_pt", "m_w",
                         "five", "f_f")}
    ri = lambda: rng.choice([0, 1, -1, 7, 12, 123, -123, 2 ** 31 - 1, -2 ** 31, 10, 100])
    # long strings that differ only far from the start / in their last character / in case / in
    # surrounding whitespace (truncation, hashing of a prefix, case folding, trimming)
    for i in range(max(8, n // 10)):
        base = tuple("xy"[(i + j) % 2] for j in range(rng.randint(30, 90)))
        v1 = base + ("a",)
        v2 = base + ("A",)
        v3 = base + ("a", " ")
        v4 = (" ",) + base + ("a",)
        for v in (v1, v2, v3, v4, base):
            D["s"].append([S(v)])
            D["s_s"].append([S(v), S(("a",))])
            D["m_w"].append([W(v), S(("a",))])
            D["vs"].append([V([S(v)])])
            D["os_s"].append([Opt(True, S(v)), S(())])
    # a control character and the text of its Debug escape: "\n" (one char) vs "\\n" (backslash, n) etc.
    # -- a renderer that escapes one but not the other makes them collide
    look = [("\n", "\\n"), ("\t", "\\t"), ("\r", "\\r"), ("\0", "\\0"), ("\\", "\\\\"), ("\"", "\\\""), ("'", "\\'"),
            ("\u0007", "\\u{7}"), ("\u200b", "\\u{200b}"), ("\u001b", "\\u{1b}"), ("é", "\\u{e9}")]
    for (ch, txt) in look:
        for pre_, post_ in (((), ()), (("C", ":"), ("e", "w")), (("a",), ())):
            v1 = tuple(pre_) + (ch,) + tuple(post_)
            v2 = tuple(pre_) + tuple(txt) + tuple(post_)
            for v in (v1, v2):
                D["s"].append([S(v)])
                D["s_s"].append([S(v), S(("a",))])
                D["s_s"].append([S(("a",)), S(v)])
                D["rs_c"].append([S(v), C("a")])
                D["m_w"].append([W(v), S(v)])
                D["vs"].append([V([S(v)])])
                D["os_s"].append([Opt(True, S(v)), S(v)])
                D["t_i"].append([T([I(1), S(v)]), I(1)])
                D["five"].append([I(7), I(7), S(v), C("a"), B(True)])
        if len(ch) == 1:
            D["rs_c"].append([S(("a",)), C(ch)])
    for _ in range(n):
        a, b, c = rstr(rng), rstr(rng), rstr(rng)
        D["s_s"].append([S(a), S(b)])
        # near-collision: move the boundary
        j = a + ("|",) + b
        cut = rng.randint(0, len(j))
        D["s_s"].append([S(j[:cut]), S(j[cut:])])
        D["s_s_s"].append([S(a), S(b), S(c)])
        D["s"].append([S(j)])
        D["rs_c"].append([S(a), C(rng.choice(ADV_CHARS))])
        D["i_i"].append([I(ri()), I(ri())])
        D["b_oi"].append([B(rng.random() < .5), Opt(rng.random() < .7, I(rng.choice([0, 1, -1, 12])))])
        D["vi_vi"].append([V(I(rng.choice([0, 1, -1, 12, 112])) for _ in range(rng.randint(0, 3))),
                           V(I(rng.choice([0, 1, -1, 12, 112])) for _ in range(rng.randint(0, 3)))])
        D["vs"].append([V(S(rstr(rng, 3)) for _ in range(rng.randint(0, 3)))])
        D["t_i"].append([T([I(rng.choice([0, 1, -1])), S(a)]), I(rng.choice([0, 1, -1]))])
        D["os_s"].append([Opt(rng.random() < .7, S(a)), S(b)])
        D["sl"].append([V(I(rng.choice([0, 1, -1, 12])) for _ in range(rng.randint(0, 4)))])
        D["m_pt"].append([Pt(rng.choice([0, 1, -1]), a), I(rng.choice([0, 1, -1]))])
        D["m_w"].append([W(a), S(b)])
        D["five"].append([I(rng.choice([0, 7, 77, 255])), I(rng.choice([-7, 7, -32768])), S(a), C(rng.choice(ADV_CHARS)),
                          B(rng.random() < .5)])
        fa = rng.choice([0.0, -0.0, 1.0, 1.0 + 2.220446049250313e-16, 1.5, 1e-7, 1e-13, 2e-13, 1e21, float("inf"),
                         -2.25, 0.1, 0.30000000000000004, 0.3, 5e-324, 2.2250738585072014e-308, 123456789.12345678,
                         123456789.12345679, 1e15, 1e15 + 0.125])
        # the second argument is an f32: use values that are exactly representable (and stay distinct) as f32
        fb = rng.choice([0.0, -0.0, 1.0, 1.0 + 2.0 ** -23, 1.5, 0.125, 2.0 ** 35, -1.0, 2.0 ** -27, 2.0 ** -26,
                         16777216.0, 16777218.0])
        D["f_f"].append([{"t": "float", "bits": fbits(fa)}, {"t": "float", "bits": fbits(fb)}])
    return D


def write_key_script(path, groups):
    """groups: list of (sig, flavour, parts_list, model?)"""
    n = 0
    with open(path, "w") as f:
        for sig, flav, plist, model in groups:
            seen = set()
            for parts in plist:
                key = json.dumps(parts, sort_keys=True)
                if key in seen:
                    continue
                seen.add(key)
                m = model and modelled(parts) and sig != "f_f"
                f.write(json.dumps({"sig": sig, "flavour": flav, "model": m, "parts": parts}) + "\n")
                n += 1
    return n
